#!/bin/bash
# Development aid: run the quick tier of the given checks on the unchanged tree, one after the
# other, keeping logs, timings and violation dumps under /tmp/clean.
cd /verif
mkdir -p /tmp/clean
for c in "$@"; do
  /usr/bin/time -o /tmp/clean/$c.time -f "%e" env VERIF_DUMP=/tmp/clean/$c.dump ./check $c --tier ${TIER:-quick} > /tmp/clean/$c.log 2>&1
  echo "$c exit=$? $(cat /tmp/clean/$c.time)s" >> /tmp/clean/summary.txt
done
