"""Regenerates MANIFEST.json from the spec registry (development aid)."""
import json

from checks.specs import SPECS

ALL = ["C%02d" % i for i in range(1, 21)]
NOT_BUILT = {}
TEXT = {
    "C01": ("Bounded symbolic model checking of the real parser: every path of TokenizedMarkdown.transform over all documents in the bound is explored; no exception, bounded block-pass iterations, no hang.", "§5 C01"),
    "C02": ("Bounded symbolic model checking of parse + TransformToMarkdown: regenerated text == source decided by z3 as one symbolic string equality on every path.", "§5 C02"),
    "C03": ("Bounded symbolic differential check: pymarkdown's GFM HTML against the vendored CommonMark reference, both executed symbolically on the same cells.", "§5 C03"),
    "C04": ("Bounded symbolic model checking of the parser; every path's token stream is run through an independent stack automaton.", "§5 C04"),
    "C05": ("Bounded symbolic model checking of the parser; every positioned token is compared with the symbolic source by an independent position oracle.", "§5 C05"),
    "C06": ("Bounded symbolic check of rule verdicts against documented conditions with symbolic configuration values.", "§5 C06"),
    "C07": ("Bounded symbolic model checking of two complete scans through PyMarkdownLint.main over a virtual file system; plus an unbounded-integer kernel for the failure ordering.", "§5 C07"),
    "C08": ("Bounded symbolic check that fix preserves the content fingerprint computed by the reference implementation.", "§5 C08"),
    "C09": ("Bounded symbolic model checking of fix, fix-again and scan-after-fix through the real application.", "§5 C09"),
    "C10": ("Bounded symbolic model checking of scan and fix over a logging virtual file system.", "§5 C10"),
    "C11": ("Bounded symbolic check of pragma suppression and parser invisibility.", "§5 C11"),
    "C12": ("Bounded symbolic model checking of 48 scans (all, default, each rule alone) of the same symbolic document in one path.", "§5 C12"),
    "C13": ("Bounded symbolic model checking of two-file histories against single-file runs.", "§5 C13"),
    "C14": ("Bounded symbolic model checking of the call log of a recording rule loaded through --add-plugin.", "§5 C14"),
    "C15": ("Bounded symbolic fault enumeration: the index of the failing callback / parser invocation / write-back step is a z3 variable.", "§5 C15"),
    "C16": ("Bounded symbolic model checking of six entry points on the same symbolic document.", "§5 C16"),
    "C17": ("Symbolic model checking of configuration layering: presence/value of every layer and -e/-d are z3 Bools, setting values unbounded z3 Ints.", "§5 C17"),
    "C18": ("Symbolic kernel over outcome category x scheme, plus bounded symbolic whole-program runs with symbolic contents and fault index.", "§5 C18"),
    "C19": ("Bounded symbolic check of file discovery against a reference model on symbolic directory trees.", "§5 C19"),
    "C20": ("Bounded symbolic check that extensions are inert unless enabled and triggered.", "§5 C20"),
}


def main():
    m = json.load(open("MANIFEST.json"))
    checks = []
    for pid in ALL:
        s = SPECS.get(pid)
        if not s:
            continue
        text, ref = TEXT[pid]
        checks.append({
            "property_id": pid,
            "quick_cmd": f"./check {pid} --tier quick",
            "thorough_cmd": f"./check {pid} --tier thorough",
            "evidence_file": f"/verif/evidence/{pid}.json",
            "replay_cmd_template": f"./check {pid} --replay {{path}}",
            "engine": "crosshair-z3-path-exploration",
            "level_claimed": {"category": "model_checking", "text": text + " A shard is decided only when its path tree is exhausted; the verdict holds for every value of the symbolic variables inside the stated bounds and says nothing outside them.", "design_ref": ref},
            "level_note": "Trusted: CrossHair 0.0.110's models of str/list/int/bool, z3 5.1, the import hook that strips side-effect-free logging statements, the environment stubs listed in the evidence file (VFS, presentation, loaders). Every counterexample is replayed on the unmodified code (no hook, no stub, real files) before it is reported; genuine pinned-tree defects are listed in known_findings.json.",
            "technique": "symbolic execution of the real code (CrossHair) with z3 deciding every branch and the final assertion; exhaustive path exploration per bounded shard; concrete replay of counterexamples",
        })
    m["checks"] = checks
    m["engines"][0]["serves_properties"] = [c["property_id"] for c in checks]
    m["not_applicable"] = [{"property_id": p, "reason": NOT_BUILT.get(p, "check not built yet in this session (planned, DESIGN §5)")} for p in ALL if p not in SPECS]
    m["notes"] = "Exit codes: 0 held / only known findings; 1 new violation (VIOLATION line); 3 harness error (a symbolic counterexample that does not reproduce on the real code, or no shard could be decided). Undecided shards are listed in the evidence file and never counted as success of that remainder."
    json.dump(m, open("MANIFEST.json", "w"), indent=1)
    print(len(checks), "checks;", len(m["not_applicable"]), "not applicable")


main()
