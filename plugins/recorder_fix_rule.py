"""Fix-capable variant of the recording rule (takes part in fix-mode passes); it never
requests a fix.  Shares LOG / FAULT_AT with RecorderRule."""
from pymarkdown.plugin_manager.plugin_details import PluginDetailsV2
from recorder_rule import RecorderRule


class RecorderFixRule(RecorderRule):
    def get_details(self):
        return PluginDetailsV2(
            plugin_name="verif-recorder-fix",
            plugin_id="VPR002",
            plugin_enabled_by_default=True,
            plugin_description="records life-cycle callbacks in fix mode",
            plugin_version="0.0.1",
            plugin_url="https://example.invalid/vpr002",
            plugin_supports_fix=True,
            plugin_fix_level=1,
        )

    # RulePlugin looks for the callbacks in the class' own __dict__
    def starting_new_file(self):
        RecorderRule.starting_new_file(self)

    def next_token(self, context, token):
        RecorderRule.next_token(self, context, token)

    def next_line(self, context, line):
        RecorderRule.next_line(self, context, line)

    def completed_file(self, context):
        RecorderRule.completed_file(self, context)
