"""Recording rule used by C14/C15 (loaded through the real --add-plugin route).
It reports nothing; it appends every life-cycle callback to RecorderRule.LOG and can be told
to raise at the k-th callback (C15 fault injection; k may be a symbolic int)."""
from pymarkdown.plugin_manager.plugin_details import PluginDetailsV2
from pymarkdown.plugin_manager.rule_plugin import RulePlugin


class RecorderRule(RulePlugin):
    LOG = []
    FAULT_AT = None  # raise when the callback counter equals this
    COUNT = 0
    FAULT_FILE = None  # file being processed when the fault was raised (None: not known)
    FAULTED = False

    def get_details(self):
        return PluginDetailsV2(
            plugin_name="verif-recorder",
            plugin_id="VPR001",
            plugin_enabled_by_default=True,
            plugin_description="records life-cycle callbacks",
            plugin_version="0.0.1",
            plugin_url="https://example.invalid/vpr001",
        )

    @classmethod
    def reset(cls, fault_at=None):
        cls.LOG = []
        cls.FAULT_AT = fault_at
        cls.COUNT = 0
        cls.FAULT_FILE = None
        cls.FAULTED = False

    def _tick(self, entry, context=None):
        RecorderRule.LOG.append(entry)
        k = RecorderRule.COUNT
        RecorderRule.COUNT = k + 1
        if RecorderRule.FAULT_AT is not None and RecorderRule.FAULT_AT == k:
            RecorderRule.FAULTED = True
            RecorderRule.FAULT_FILE = context.scan_file if context is not None else None
            raise RuntimeError("injected fault")

    def starting_new_file(self):
        self._tick(("start",))

    def next_token(self, context, token):
        self._tick(("token", token), context)

    def next_line(self, context, line):
        self._tick(("line", context.line_number, line), context)

    def completed_file(self, context):
        self._tick(("done",), context)
