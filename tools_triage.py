"""Development aid: cluster the reproduced violations of a VERIF_DUMP file that no known finding matches."""
import collections, json, sys
from engine import findings
prop = sys.argv[1]
known = findings.load(prop)
rows = [json.loads(l) for l in open(sys.argv[2])]
un = collections.defaultdict(list); hit = collections.Counter()
for r in rows:
    rr = {"observed": r["observed"], "timeout": r.get("timeout")}
    case = {"params": r["params"], "vars": r["vars"], "kind": r["kind"], "real_module": "checks.parse_real"}
    k = findings.match(known, case, rr)
    if k: hit[k["id"]] += 1
    else:
        o = r["observed"]; 
        if "neutral" in o and o["neutral"].get("violates"): o = o["neutral"]["observed"]
        key = r["sig"] + " | " + str(o.get("diff") or o.get("why") or (o.get("positions") or [{}])[0].get("why") if isinstance(o.get("positions"), list) and o.get("positions") else r["sig"] + " | " + str(o.get("diff") or o.get("why")))
        un[key].append(r["readable"])
print("matched", dict(hit))
for k, v in sorted(un.items(), key=lambda kv: -len(kv[1])):
    print(len(v), k, v[:3])
