#!/bin/bash
# Development aid: run checks against a scratch worktree that carries a seeded change.
#   tools_seedcheck.sh /tmp/seed-c02-a C02 C08 ...
WT="$1"; shift
for c in "$@"; do
  echo "=== $c against $WT"
  VERIF_REPO="$WT" VERIF_EVIDENCE_DIR=/tmp/seed-evidence timeout 3000 ./check "$c" --tier "${TIER:-quick}" 2>&1 | grep -E "VIOLATION|KNOWN-FINDING|HARNESS|^C[0-9]+ \[" | cut -c1-300
  echo "exit=${PIPESTATUS[0]}"
done
