"""C20: extensions are inert unless enabled and needed; front matter only shifts lines."""
from engine import docs, env
from engine.driver import SKIP, Raised
from engine.env import NoTracing, build_cells, sym_doc, valid_cell

from pymarkdown.transform_gfm.transform_to_gfm import TransformToGfm

EXT = ["front-matter", "linter-pragmas", "markdown-disallow-raw-html", "markdown-extended-autolinks", "markdown-strikethrough", "markdown-task-list-items"]
_TOKS = {}


def tokenizer_for(subset):
    """a fresh tokenizer per call (built untraced): C20 quantifies over single documents, so a
    path must not see state left by the document of an earlier path (that is C13's subject)"""
    with NoTracing():
        cfg = {"extensions": {e: {"enabled": (e in subset)} for e in EXT}}
        return env.make_tokenizer(cfg)


def has(d, needle):
    return needle in d


def first_line(d):
    i = 0
    n = len(d)
    while i < n and not (d[i] == "\n"):
        i += 1
    return d[:i]


def triggers(ext, d):
    """symbolic predicate: the document contains the extension's trigger syntax"""
    if ext == "markdown-strikethrough":
        return has(d, "~")
    if ext == "markdown-task-list-items":
        return has(d, "[")
    if ext == "markdown-extended-autolinks":
        return has(d, ":") or has(d, "@") or (has(d, ".") and (has(d, "w") or has(d, "W")))
    if ext == "markdown-disallow-raw-html":
        return has(d, "<")
    if ext == "front-matter":
        return first_line(d).rstrip(" ") == "---" if False else (len(d) >= 3 and d[0] == "-" and d[1] == "-" and d[2] == "-")
    if ext == "linter-pragmas":
        return has(d, "<!--")
    raise ValueError(ext)


def tok_strs(tokens):
    return [str(t) for t in tokens]


class ExtHarness:
    """params: skeleton, holes, subset (enabled extensions)."""

    restrict_domain = True

    def __init__(self, params):
        self.p = params
        self.skeleton = params["skeleton"]
        self.holes = list(params["holes"])
        self.subset = list(params["subset"])

    def variables(self):
        return [(f"c{i}", "int") for i in range(len(self.holes))]

    def doc(self, v):
        cells = [v[f"c{i}"] for i in range(len(self.holes))]
        for c in cells:
            if not valid_cell(c):
                return None
        if self.p.get("domain") == "finite":
            for c in cells:
                if not docs.in_finite(c):
                    return None
            cells = [env.realize(c) for c in cells]
        return sym_doc(build_cells(self.skeleton, self.holes, cells))

    def body(self, v):
        d = self.doc(v)
        if d is None:
            return SKIP
        try:
            ts = tokenizer_for(self.subset).transform(d, show_debug=False)
            t0 = tokenizer_for([]).transform(d, show_debug=False)
        except Exception as exc:  # noqa  parse failure is C01's finding
            return ("parse-error", d)
        hs = TransformToGfm().transform(ts)
        h0 = TransformToGfm().transform(t0)
        return ("ok", d, ts, t0, hs, h0)

    def judge(self, obs, v):
        if isinstance(obs, Raised):
            return []
        if obs[0] != "ok":
            return []
        _, d, ts, t0, hs, h0 = obs
        for e in self.subset:
            if triggers(e, d):
                return []  # the document contains enabled trigger syntax: any parse is allowed here
        out = []
        a, b = tok_strs(ts), tok_strs(t0)
        if not (a == b):
            out.append({"kind": "tokens-differ-without-trigger", "detail": {"enabled": self.subset, "with": a, "without": b}})
        elif not (hs == h0):
            out.append({"kind": "html-differs-without-trigger", "detail": {"enabled": self.subset, "with": hs, "without": h0}})
        return out

    def digest(self, obs, rv):
        if isinstance(obs, Raised) or obs[0] != "ok":
            return "error"
        with NoTracing():
            return " ".join(t.token_name for t in obs[3])


class FrontMatterHarness(ExtHarness):
    """front matter enabled; document = front-matter block + rest (rest has the symbolic
    cells): tokens == [front-matter] + tokens(rest) shifted by the length of the block."""

    def __init__(self, params):
        params = dict(params, subset=["front-matter"])
        ExtHarness.__init__(self, params)
        self.block = params["block"]  # e.g. "---\nt: 1\n---\n"
        self.shift = self.block.count("\n")

    def body(self, v):
        rest = self.doc(v)
        if rest is None:
            return SKIP
        full = self.block + rest
        try:
            tf = tokenizer_for(["front-matter"]).transform(full, show_debug=False)
            tr = tokenizer_for(["front-matter"]).transform(rest, show_debug=False)
        except Exception:  # noqa
            return ("parse-error", rest)
        return ("ok", rest, tf, tr)

    def judge(self, obs, v):
        if isinstance(obs, Raised) or obs[0] != "ok":
            return []
        _, rest, tf, tr = obs
        if triggers("front-matter", rest):
            return []
        out = []
        if not tf or tf[0].token_name != "front-matter":
            return [{"kind": "no-front-matter-token", "detail": {"first": str(tf[0]) if tf else None}}]
        body = tf[1:]
        if len(body) != len(tr):
            return [{"kind": "front-matter-changes-parse", "detail": {"with": tok_strs(body), "rest_alone": tok_strs(tr)}}]
        for x, y in zip(body, tr):
            if x.token_name != y.token_name:
                out.append({"kind": "front-matter-changes-parse", "detail": {"with": str(x), "rest_alone": str(y)}})
                break
            if x.line_number or y.line_number:
                if x.line_number != y.line_number + self.shift or x.column_number != y.column_number:
                    out.append({"kind": "front-matter-shift-wrong", "detail": {"token": str(x), "rest_alone": str(y), "shift": self.shift}})
                    break
            sx = str(x).replace(f"({x.line_number},{x.column_number})", "(L,C)", 1)
            sy = str(y).replace(f"({y.line_number},{y.column_number})", "(L,C)", 1)
            if x.token_name != "setext" and not (sx == sy):
                out.append({"kind": "front-matter-changes-token", "detail": {"with": str(x), "rest_alone": str(y)}})
                break
        return out

    def digest(self, obs, rv):
        if isinstance(obs, Raised) or obs[0] != "ok":
            return "error"
        with NoTracing():
            return " ".join(t.token_name for t in obs[3])


HARNESSES = {"ext": ExtHarness, "frontmatter": FrontMatterHarness}
