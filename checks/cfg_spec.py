"""Spec of C17 (configuration layer precedence and rule settings)."""
import json

from engine.spec import Spec


class C17(Spec):
    prop = "C17"
    sym_module = "checks.cfg_sym"
    real_module = "checks.cfg_real"
    rule_text = ("enabled flag: per layer (pyproject, default file, --config, --set) a presence Bool and a value Bool, -e/-d membership Bools -- all z3 variables; real apply_configuration_layers + ApplicationProperties + "
                 "PluginManager.initialize/apply_configuration decide; assertion enabled == R-prec. settings: the supplied value is a symbolic Int (unbounded) / Bool / choice among documented and undocumented strings, strict is a symbolic Bool; "
                 "assertion: valid => effective == given; invalid => default (lenient) or configuration error (strict). distinct = distinct (enabled, #layers present, -e, -d) / (status, strict, is-default)")
    stubs = ["configuration file loaders (ApplicationPropertiesJson/Yaml/TomlLoader.load_and_set, process_standard_python_configuration_files): 'file present with this parsed content' -> properties.load_from_dict(content, clear_map=False); absent -> no-op. "
             "JSON/YAML/TOML text parsing is exercised only in the concrete replay (real files in a real working directory, observed through `plugins list` / `plugins info`)"]
    cuts = ["logging statements removed after a syntactic purity screen"]
    assumptions = ["the rule is named consistently by one identifier throughout a configuration (as the property states)",
                   "-e/-d take a comma separated list whose identifiers are matched after removing surrounding blanks (symbolic Bool cli_list: the identifier alone, or second in 'md998, <identifier>')",
                   "validity table of settings transcribed from newdocs/src/plugins/rule_md*.md and the rules' stated ranges (checks/cfg_sym_table.py)"]
    outside = ["textual parsing of JSON/YAML/TOML inside the symbolic run", "`columnar` table rendering", "extension enable flags", "settings not in the table (front_matter_title, punctuation, names, headings lists, hr style strings)"]

    def job(self, harness, params, budget=200.0):
        p = dict(params)
        p["prop"] = self.prop
        return {"harness": harness, "params": p, "per_path_timeout": 30.0, "budget_s": budget}

    def shards(self, tier):
        from checks.cfg_sym_table import ITEMS

        out = []
        names = [("md013", "md013", True), ("md013", "line-length", True), ("md002", "md002", False), ("md002", "first-heading-h1", False), ("md002", "first-header-h1", False)]
        if tier != "quick":
            names += [("md012", "no-multiple-blanks", True), ("pml100", "pml100", False), ("md003", "heading-style", True), ("md003", "header-style", True)]
        for rule, name, default in names:
            out.append(self.job("enabled", {"rule": rule, "name": name, "default": default}))
        for item in ITEMS:
            for kind in ("int", "bool", "str"):
                out.append(self.job("setting", {"item": item, "kind": kind}))
        alias = {"md013.line_length": "line-length", "md009.br_spaces": "no-trailing-spaces", "md003.style": "header-style", "md025.level": "single-h1"}
        for item, name in alias.items():
            kind = "str" if item.endswith("style") else "int"
            out.append(self.job("setting", {"item": item, "kind": kind, "name": name}))
        return out

    def bounds_text(self, tier):
        from checks.cfg_sym_table import ITEMS

        return {"enabled": "all 2^10 combinations of 4 layers x {absent,true,false} x -e x -d, for a default-enabled and a default-disabled rule addressed by id and by each alias", "settings": "%d documented items x {Int (unbounded), Bool, string choice} x strict Bool" % len(ITEMS)}

    def readable(self, case):
        return json.dumps({"params": {k: v for k, v in case["params"].items() if k != "prop"}, "vars": case["vars"]})

    def signature(self, case, rr):
        v = (rr.get("observed") or {}).get("violations") or []
        return (v[0]["kind"] if v else case["kind"]) + ":" + str(case["params"].get("item") or case["params"].get("rule"))
