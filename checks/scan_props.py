"""Property assertions of the scan family, written once and evaluated both on symbolic
observations (under CrossHair; comparisons on cells become z3 queries) and on concrete
replays.  `doc` may be a symbolic str; failure tuples are (line, col, id, name, extra)."""


def split_lines(doc):
    out = []
    start = 0
    n = len(doc)
    i = 0
    while i < n:
        if doc[i] == "\n":
            out.append(doc[start:i])
            start = i + 1
        i += 1
    out.append(doc[start:])
    return out


def mentions(err, word):
    for e in err:
        if isinstance(e, str) and word in e:
            return True
    return False


def c07(doc, fails1, fails2, err1, code1):
    """range, uniqueness, order, repeatability, no plugin error.  fails*: 5-tuples."""
    out = []
    if mentions(err1, "BadPluginError"):
        out.append({"kind": "plugin-error", "detail": {"err": [e for e in err1 if isinstance(e, str)][:2]}})
        return out
    if mentions(err1, "BadTokenizationError"):
        return out  # C01's finding: the property quantifies over parseable documents
    lines = split_lines(doc)
    nlines = len(lines)
    prev = None
    for f in fails1:
        ln, col, rid = f[0], f[1], f[2]
        if not (1 <= ln <= nlines):
            out.append({"kind": "line-out-of-range", "detail": {"failure": list(f), "nlines": nlines}})
        elif "\t" in lines[ln - 1]:
            pass  # outside the claim: column semantics on a line containing a TAB is undocumented
        elif not (1 <= col <= len(lines[ln - 1]) + 1):
            out.append({"kind": "column-out-of-range", "detail": {"failure": list(f), "line_length": len(lines[ln - 1])}})
        key = (ln, col, rid)
        if prev is not None:
            if key == prev:
                out.append({"kind": "duplicate", "detail": {"failure": list(f)}})
            elif key < prev:
                out.append({"kind": "order", "detail": {"failure": list(f), "previous": list(prev)}})
        prev = key
    if list(fails1) != list(fails2):
        out.append({"kind": "not-repeatable", "detail": {"first": [list(f) for f in fails1], "second": [list(f) for f in fails2]}})
    return out


def has_write_ops(log, path):
    """any create/write/remove/copy touching `path` or any temp file in a VFS log"""
    for op in log:
        if op[0] in ("open-w", "write", "remove", "copy", "tmp", "replace"):
            return True
    return False


def c09(d0, d1, d2, o1, o2, o3_fails, fixable_ids):
    """d0 original, d1 after first fix, d2 after second fix; o3_fails: scan of d1"""
    out = []
    if mentions(o1.err, "Error") or o1.code == 1:
        return out  # the first run failed (C01/C15 territory): nothing to converge
    if not (d2 == d1):
        out.append({"kind": "second-fix-changes-file", "detail": {"after_first": d1, "after_second": d2}})
    if o2.fixed or o2.code == 3:
        out.append({"kind": "second-fix-reports-fixed", "detail": {"code": o2.code, "after_first": d1}})
    left = [list(f) for f in o3_fails if f[2].lower() in fixable_ids]
    if left:
        out.append({"kind": "fixable-failure-left", "detail": {"after_first": d1, "left": left}})
    return out


def c10(d0, d_after_scan, scan_obs, d1, fix_obs, fixable_ids, path, scheme_minimal=False):
    out = []
    # scan is read-only
    if not (d_after_scan == d0):
        out.append({"kind": "scan-modified-file", "detail": {"after": d_after_scan}})
    if has_write_ops([op for op in scan_obs.log if op[0] != "open-r"], path):
        out.append({"kind": "scan-wrote", "detail": {"log": [list(x) for x in scan_obs.log][:8]}})
    extra = [n for n, _ in scan_obs.files if n != path]
    if extra:
        out.append({"kind": "scan-left-files", "detail": {"files": extra}})
    if mentions(fix_obs.err, "Error") or fix_obs.code == 1:
        return out
    changed = not (d1 == d0)
    announced = path in fix_obs.fixed
    if changed != announced:
        out.append({"kind": "changed-vs-announced", "detail": {"changed": changed, "announced": announced, "after": d1}})
    want_code = (0 if scheme_minimal else 3) if changed else None
    if changed and fix_obs.code != want_code:
        out.append({"kind": "changed-but-exit-code", "detail": {"code": fix_obs.code, "after": d1}})
    if (not changed) and fix_obs.code == 3:
        out.append({"kind": "unchanged-but-fixed-exit-code", "detail": {"code": fix_obs.code}})
    if not mentions(scan_obs.err, "Error"):
        fixable_seen = [f for f in scan_obs.fail_tuples() if f[2].lower() in fixable_ids]
        if not fixable_seen and changed:
            out.append({"kind": "changed-without-fixable-failure", "detail": {"after": d1, "scan": [list(f) for f in scan_obs.fail_tuples()]}})
    extra = [n for n, _ in fix_obs.files if n != path]
    if extra:
        out.append({"kind": "fix-left-files", "detail": {"files": extra}})
    return out


def c12(res, ids, default_ids):
    """res: selection -> sorted bag of (line, col, RULE, extra) or None (scan failed)."""
    out = []
    if any(res.get(k) is None for k in res):
        return out  # a scan failed internally: C07/C01 territory
    singles = {rid: res["only:" + rid] for rid in ids}
    for rid in ids:
        foreign = [list(x) for x in singles[rid] if x[2].lower() != rid]
        if foreign:
            out.append({"kind": "single-rule-reports-other-rule", "detail": {"rule": rid, "foreign": foreign}})
    union_all = sorted(x for rid in ids for x in singles[rid])
    if res["all"] != union_all:
        out.append({"kind": "all-differs-from-union", "detail": _bagdiff(res["all"], union_all)})
    union_def = sorted(x for rid in default_ids for x in singles[rid])
    if res["default"] != union_def:
        out.append({"kind": "default-differs-from-union", "detail": _bagdiff(res["default"], union_def)})
    for rid in default_ids:
        k = "minus:" + rid
        if k in res:
            want = sorted(x for x in res["default"] if x[2].lower() != rid)
            if res[k] != want:
                out.append({"kind": "disabling-one-rule-changes-others", "detail": dict(_bagdiff(res[k], want), rule=rid)})
    return out


def _bagdiff(got, want):
    g = [list(x) for x in got if x not in want]
    w = [list(x) for x in want if x not in got]
    return {"only_in_combined_run": g[:6], "only_in_single_runs": w[:6]}


def c14(log, docs_in_order, token_lists, enabled=True):
    """log: recorder entries; docs_in_order: the source text of each file in processing
    order; token_lists: for each file the token list obtained directly from the parser (pragma
    token removed), or None when the file does not parse (then the file is skipped).
    Tokens are compared by str(); lines by exact text."""
    out = []
    if not enabled:
        if log:
            out.append({"kind": "disabled-rule-called", "detail": {"calls": len(log)}})
        return out
    i = 0
    n = len(log)
    for fi, (doc, toks) in enumerate(zip(docs_in_order, token_lists)):
        if toks is None:
            return out  # parse failure: C01/C15 territory, stop comparing
        if i >= n or log[i][0] != "start":
            out.append({"kind": "no-start", "detail": {"file": fi, "at": i}})
            return out
        i += 1
        for t in toks:
            if i >= n or log[i][0] != "token":
                out.append({"kind": "token-missing", "detail": {"file": fi, "at": i, "expected": str(t)}})
                return out
            if str(log[i][1]) != str(t):
                out.append({"kind": "token-differs", "detail": {"file": fi, "at": i, "expected": str(t), "got": str(log[i][1])}})
                return out
            i += 1
        lines = split_lines(doc)
        for li, text in enumerate(lines):
            if i >= n or log[i][0] != "line":
                out.append({"kind": "line-missing", "detail": {"file": fi, "line": li + 1, "got": log[i][0] if i < n else None}})
                return out
            if log[i][1] != li + 1:
                out.append({"kind": "line-number-wrong", "detail": {"file": fi, "expected": li + 1, "got": log[i][1]}})
                return out
            if not (log[i][2] == text):
                out.append({"kind": "line-text-differs", "detail": {"file": fi, "line": li + 1, "expected": text, "got": log[i][2]}})
                return out
            i += 1
        if i >= n or log[i][0] != "done":
            out.append({"kind": "no-completed-file", "detail": {"file": fi, "got": log[i][0] if i < n else None}})
            return out
        i += 1
    if i != n:
        out.append({"kind": "extra-calls", "detail": {"extra": n - i, "first": log[i][0]}})
    return out


def c16(routes, fixed_texts):
    """routes: name -> list of (line, col, id, name, extra) or None (route not applicable /
    failed); fixed_texts: name -> text or None.  All applicable routes must agree."""
    out = []
    ref_name = None
    ref = None
    for name, fails in routes.items():
        if fails is None:
            continue
        if ref is None:
            ref_name, ref = name, fails
        elif not (list(fails) == list(ref)):
            out.append({"kind": "routes-disagree", "detail": {"a": ref_name, "b": name, "a_fails": [list(f) for f in ref][:8], "b_fails": [list(f) for f in fails][:8]}})
    ref_name = None
    ref = None
    for name, text in fixed_texts.items():
        if text is None:
            continue
        if ref is None:
            ref_name, ref = name, text
        elif not (text == ref):
            out.append({"kind": "fixed-text-disagrees", "detail": {"a": ref_name, "b": name, "a_text": ref, "b_text": text}})
    return out


def c13(multi_fails_b, single_fails_b, multi_pragma_b, single_pragma_b, multi_text_b, single_text_b, multi_fixed_b, single_fixed_b):
    out = []
    if not (list(multi_fails_b) == list(single_fails_b)):
        out.append({"kind": "failures-depend-on-earlier-file", "detail": {"after_other_file": [list(f) for f in multi_fails_b][:8], "alone": [list(f) for f in single_fails_b][:8]}})
    if not (list(multi_pragma_b) == list(single_pragma_b)):
        out.append({"kind": "pragma-errors-depend-on-earlier-file", "detail": {"after_other_file": [list(f) for f in multi_pragma_b][:4], "alone": [list(f) for f in single_pragma_b][:4]}})
    if not (multi_text_b == single_text_b):
        out.append({"kind": "fixed-bytes-depend-on-earlier-file", "detail": {"after_other_file": multi_text_b, "alone": single_text_b}})
    if multi_fixed_b != single_fixed_b:
        out.append({"kind": "fixed-announcement-depends-on-earlier-file", "detail": {"after_other_file": multi_fixed_b, "alone": single_fixed_b}})
    return out


def classify_err(err):
    """(system_error, no_files) from the stderr records of one run"""
    system_error = False
    no_files = False
    for e in err:
        if not isinstance(e, str):
            continue
        t = e.strip()
        if t.startswith("No matching files found") or t.startswith("Provided path") or t.startswith("Provided file path") or t.startswith("Provided glob path"):
            no_files = True
        elif t:
            system_error = True
    return system_error, no_files


# user guide, --return-code-scheme: category -> (default, minimal)
EXIT_TABLE = {"success": (0, 0), "no-files": (1, 0), "command-line": (2, 2), "fixed": (3, 0), "failures": (1, 0), "system-error": (1, 1)}


def c18(code, err, fails, fixed, minimal, forced_category=None):
    """exit code == R-exit(category(observed), scheme)"""
    if forced_category is not None:
        cat = forced_category
    else:
        system_error, no_files = classify_err(err)
        if system_error:
            cat = "system-error"
        elif no_files:
            cat = "no-files"
        elif fixed:
            cat = "fixed"
        elif fails:
            cat = "failures"
        else:
            cat = "success"
    want = EXIT_TABLE[cat][1 if minimal else 0]
    if code != want:
        return [{"kind": "exit-code", "detail": {"category": cat, "scheme": "minimal" if minimal else "default", "expected": want, "got": code}}]
    return []


def names_file(err, path):
    for e in err:
        if isinstance(e, str) and path in e:
            return True
    return False


def c15_fault(o, inputs, faulted, fault_file, continue_on_error, mode, originals, fixed_alone, other_alone_fails, other_path):
    """o: observation of the faulty run.  inputs: [paths]; faulted: did the injected fault
    fire; fault_file: path being processed at the fault (None if not known); originals /
    fixed_alone: path -> text; other_alone_fails: failures of `other_path` processed without
    the failing file (5-tuples) or None."""
    out = []
    if not faulted:
        return out
    if o.code != 1:
        out.append({"kind": "fault-not-system-error", "detail": {"code": o.code, "fixed": list(o.fixed)}})
    named = [p for p in inputs if names_file(o.err, p)]
    if fault_file is not None:
        if fault_file not in named:
            out.append({"kind": "error-does-not-name-file", "detail": {"file": fault_file, "err": [e for e in o.err if isinstance(e, str)][:2]}})
    elif not named:
        out.append({"kind": "error-names-no-file", "detail": {"err": [e for e in o.err if isinstance(e, str)][:2]}})
    if continue_on_error and other_alone_fails is not None and fault_file is not None and other_path != fault_file:
        got = [t[1:] for t in o.fail_tuples(with_file=True) if t[0] == other_path]
        if not (got == list(other_alone_fails)):
            out.append({"kind": "other-file-affected", "detail": {"file": other_path, "with_failing_file": [list(x) for x in got][:6], "alone": [list(x) for x in other_alone_fails][:6]}})
    files = dict_of(o.files)
    for p in inputs:
        if originals[p] is None:
            continue  # the undecodable file itself: its bytes are not text
        t = files.get(p)
        if t is None:
            out.append({"kind": "input-file-missing", "detail": {"file": p}})
        elif mode == "fix":
            if not (t == originals[p]) and not (t == fixed_alone[p]):
                out.append({"kind": "file-neither-original-nor-fixed", "detail": {"file": p, "content": t, "original": originals[p], "fixed": fixed_alone[p]}})
        elif not (t == originals[p]):
            out.append({"kind": "scan-modified-file", "detail": {"file": p, "content": t}})
    extra = [n for n in files if n not in inputs]
    if extra:
        out.append({"kind": "temp-file-left", "detail": {"files": extra}})
    return out


def dict_of(pairs):
    d = {}
    for n, t in pairs:
        d[n] = t
    return d


def c15_crash(files_after, crashed, inputs, originals, fixed_alone):
    """after the process died during write-back every input is original or completely fixed"""
    out = []
    if not crashed:
        return out
    files = dict_of(files_after)
    for p in inputs:
        t = files.get(p)
        if t is None:
            out.append({"kind": "crash-lost-file", "detail": {"file": p}})
        elif not (t == originals[p]) and not (t == fixed_alone[p]):
            out.append({"kind": "crash-half-written", "detail": {"file": p, "content": t, "original": originals[p], "fixed": fixed_alone[p]}})
    return out


def insert_line(doc, i, line):
    """doc with `line` (no newline inside) inserted before 0-based line index i"""
    lines = split_lines(doc)
    return "\n".join(lines[:i] + [line] + lines[i:])


def c11_pipeline(fails_d, fails_p, pragma_errs_p, i, command, n, named_ids, wellformed, tok_d, tok_p):
    """fails_*: 5-tuples (line, col, ID, name, extra); pragma inserted before 0-based line i
    (it is line i+1 of the new document).  tok_*: [(name, line, col, text-with-position-masked)]
    or None when a parse failed."""
    out = []
    p_line = i + 1

    def shift(ln):
        return ln + 1 if ln >= p_line else ln

    expected = []
    for f in fails_d:
        ln = shift(f[0])
        covered = False
        if wellformed and f[2].lower() in named_ids:
            if command == "disable-next-line":
                covered = ln == p_line + 1
            else:
                covered = p_line + 1 <= ln <= p_line + n
        if not covered:
            expected.append((ln,) + tuple(f[1:]))
    got = [tuple(f) for f in fails_p]
    if sorted(got) != sorted(expected):
        extra = [list(x) for x in got if x not in expected]
        missing = [list(x) for x in expected if x not in got]
        out.append({"kind": "suppression-differs", "detail": {"unexpected": extra[:6], "missing": missing[:6]}})
    if wellformed and pragma_errs_p:
        out.append({"kind": "wellformed-pragma-reported", "detail": {"errors": [list(e) for e in pragma_errs_p][:3]}})
    if (not wellformed) and not pragma_errs_p:
        out.append({"kind": "malformed-pragma-not-reported", "detail": {}})
    if tok_d is not None and tok_p is not None:
        if len(tok_d) != len(tok_p):
            out.append({"kind": "pragma-visible-to-parser", "detail": {"without": [t[0] for t in tok_d], "with": [t[0] for t in tok_p]}})
        else:
            for a, b in zip(tok_d, tok_p):
                if a[0] != b[0] or (a[1] and shift(a[1]) != b[1]) or a[2] != b[2] or not (a[3] == b[3]):
                    out.append({"kind": "pragma-visible-to-parser", "detail": {"without": list(a), "with": list(b)}})
                    break
    return out


def c10_two(d0, d1, g0, g1, fix_obs, F, G, minimal):
    """two files in one `fix` invocation: per file changed <=> announced; any changed <=> the
    fixed-at-least-one-file result"""
    out = []
    if mentions(fix_obs.err, "Error") or fix_obs.code == 1:
        return out
    any_changed = False
    for path, before, after in ((F, d0, d1), (G, g0, g1)):
        changed = not (after == before)
        any_changed = any_changed or changed
        if changed != (path in fix_obs.fixed):
            out.append({"kind": "changed-vs-announced", "detail": {"file": path, "changed": changed, "announced": path in fix_obs.fixed}})
    want = (0 if minimal else 3) if any_changed else 0
    if fix_obs.code != want:
        out.append({"kind": "exit-code-vs-changes", "detail": {"code": fix_obs.code, "expected": want, "fixed": list(fix_obs.fixed)}})
    extra = [n for n, _ in fix_obs.files if n not in (F, G)]
    if extra:
        out.append({"kind": "fix-left-files", "detail": {"files": extra}})
    return out


def c14_fix_shape(log):
    """fix mode: whatever passes a rule takes part in, its call log must be a sequence of
    well-formed passes  start token* line* completed.  Returns violations (kinds distinguish a
    completion without a start, calls outside a pass, and a start that is never completed)."""
    out = []
    state = "idle"
    for i, e in enumerate(log):
        k = e[0]
        if k == "start":
            if state != "idle":
                out.append({"kind": "start-without-completion", "detail": {"at": i}})
            state = "started"
        elif k == "token":
            if state == "idle":
                out.append({"kind": "token-outside-pass", "detail": {"at": i}})
                return out
            if state == "lines":
                out.append({"kind": "token-after-lines", "detail": {"at": i}})
                return out
        elif k == "line":
            if state == "idle":
                out.append({"kind": "line-outside-pass", "detail": {"at": i}})
                return out
            state = "lines"
        elif k == "done":
            if state == "idle":
                out.append({"kind": "completed-without-start", "detail": {"at": i}})
                return out
            state = "idle"
    if state != "idle":
        out.append({"kind": "start-without-completion", "detail": {"at": len(log)}})
    return out
