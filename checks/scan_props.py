"""Property assertions of the scan family, written once and evaluated both on symbolic
observations (under CrossHair; comparisons on cells become z3 queries) and on concrete
replays.  `doc` may be a symbolic str; failure tuples are (line, col, id, name, extra)."""


def split_lines(doc):
    out = []
    start = 0
    n = len(doc)
    i = 0
    while i < n:
        if doc[i] == "\n":
            out.append(doc[start:i])
            start = i + 1
        i += 1
    out.append(doc[start:])
    return out


def mentions(err, word):
    for e in err:
        if isinstance(e, str) and word in e:
            return True
    return False


def c07(doc, fails1, fails2, err1, code1):
    """range, uniqueness, order, repeatability, no plugin error.  fails*: 5-tuples."""
    out = []
    if mentions(err1, "BadPluginError"):
        out.append({"kind": "plugin-error", "detail": {"err": [e for e in err1 if isinstance(e, str)][:2]}})
        return out
    if mentions(err1, "BadTokenizationError"):
        return out  # C01's finding: the property quantifies over parseable documents
    lines = split_lines(doc)
    nlines = len(lines)
    prev = None
    for f in fails1:
        ln, col, rid = f[0], f[1], f[2]
        if not (1 <= ln <= nlines):
            out.append({"kind": "line-out-of-range", "detail": {"failure": list(f), "nlines": nlines}})
        elif not (1 <= col <= len(lines[ln - 1]) + 1):
            out.append({"kind": "column-out-of-range", "detail": {"failure": list(f), "line_length": len(lines[ln - 1])}})
        key = (ln, col, rid)
        if prev is not None:
            if key == prev:
                out.append({"kind": "duplicate", "detail": {"failure": list(f)}})
            elif key < prev:
                out.append({"kind": "order", "detail": {"failure": list(f), "previous": list(prev)}})
        prev = key
    if list(fails1) != list(fails2):
        out.append({"kind": "not-repeatable", "detail": {"first": [list(f) for f in fails1], "second": [list(f) for f in fails2]}})
    return out
