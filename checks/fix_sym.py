"""Symbolic harnesses of the fix family: C09 (converges), C10 (truthful reporting)."""
from checks import scan_props
from checks.scan_sym import DocMixin, F, raised_verdict
from engine import app, env
from engine.driver import SKIP, Raised
from engine.env import NoTracing

_FIXABLE = None


def fixable_ids():
    global _FIXABLE
    if _FIXABLE is None:
        _FIXABLE = {rid for rid, _n, _e, fx in env.rule_table() if fx}
    return _FIXABLE


def content(o):
    for n, t in o.files:
        if n == F:
            return t
    return None


class C09Harness(DocMixin):
    def __init__(self, params):
        self._init_doc(params)
        sel = app.rule_args(params.get("selection", "default"))
        self.fix_argv = sel + ["fix", F]
        self.scan_argv = sel + ["scan", F]
        self.fixable = fixable_ids()
        app.the_vfs()

    def body(self, v):
        d = self.doc(v)
        if d is None:
            return SKIP
        o1 = app.run_main(self.fix_argv, [(F, d)])
        d1 = content(o1)
        o2 = app.run_main(self.fix_argv, [(F, d1)])
        d2 = content(o2)
        o3 = app.run_main(self.scan_argv, [(F, d1)])
        return (d, d1, d2, o1, o2, o3)

    def judge(self, obs, v):
        if isinstance(obs, Raised):
            return raised_verdict(obs)
        d, d1, d2, o1, o2, o3 = obs
        return scan_props.c09(d, d1, d2, o1, o2, o3.fail_tuples(), self.fixable)

    def digest(self, obs, rv):
        if isinstance(obs, Raised):
            return "raised:" + obs.root_type + "@" + obs.site
        d, d1, d2, o1, o2, o3 = obs
        with NoTracing():
            return f"{o1.code}/{o2.code}:" + ",".join(sorted({f.rule_id for f in o3.fails}))


class C10Harness(DocMixin):
    def __init__(self, params):
        self._init_doc(params)
        sel = app.rule_args(params.get("selection", "default"))
        self.minimal = params.get("scheme") == "minimal"
        pre = ["--return-code-scheme", "minimal"] if self.minimal else []
        self.fix_argv = pre + sel + ["fix", F]
        self.scan_argv = pre + sel + ["scan", F]
        self.fixable = fixable_ids()
        app.the_vfs()

    def body(self, v):
        d = self.doc(v)
        if d is None:
            return SKIP
        os_ = app.run_main(self.scan_argv, [(F, d)])
        ds = content(os_)
        if self.p.get("second") is not None:
            # two files in one invocation; the second (processed last) is given
            G = "/vfs/g.md"
            of = app.run_main(self.fix_argv + [G], [(F, d), (G, self.p["second"])])
            d1 = content(of)
            g1 = [t for n, t in of.files if n == G][0]
            return (d, ds, os_, d1, of, G, g1)
        of = app.run_main(self.fix_argv, [(F, d)])
        d1 = content(of)
        return (d, ds, os_, d1, of)

    def judge(self, obs, v):
        if isinstance(obs, Raised):
            return raised_verdict(obs)
        if len(obs) == 7:
            d, ds, os_, d1, of, G, g1 = obs
            return scan_props.c10_two(d, d1, self.p["second"], g1, of, F, G, self.minimal)
        d, ds, os_, d1, of = obs
        return scan_props.c10(d, ds, os_, d1, of, self.fixable, F, self.minimal)

    def digest(self, obs, rv):
        if isinstance(obs, Raised):
            return "raised:" + obs.root_type + "@" + obs.site
        d, ds, os_, d1, of = obs[:5]
        with NoTracing():
            return f"{os_.code}/{of.code}:{len(of.fixed)}:" + ",".join(sorted({f.rule_id for f in os_.fails}))


HARNESSES = {"c09": C09Harness, "c10": C10Harness}


import os as _os
import sys as _sys

_sys.path.insert(0, _os.path.join(env.VERIF, "vendor"))
from markdown_it import MarkdownIt  # noqa: E402

from checks.html_sym import in_domain, norm  # noqa: E402
from engine.oracles import rfp  # noqa: E402
from pymarkdown.transform_gfm.transform_to_gfm import TransformToGfm  # noqa: E402

_MD = MarkdownIt("commonmark")
_TOK8 = None


class C08Harness(DocMixin):
    """fix preserves the reference parser's content fingerprint.  Cells over the C03 domain."""

    restrict_domain = False

    def __init__(self, params):
        global _TOK8
        self._init_doc(params)
        self.argv = app.rule_args(params.get("selection", "default")) + ["fix", F]
        app.the_vfs()
        if _TOK8 is None:
            with NoTracing():
                _TOK8 = env.make_tokenizer()

    def body(self, v):
        from engine.env import build_cells, sym_doc

        if self.template:
            d = self.doc_from_template(v)
            if d is None:
                return SKIP
        else:
            cells = [v[f"c{i}"] for i in range(len(self.holes))]
            for c in cells:
                if not in_domain(c):
                    return SKIP
            d = sym_doc(build_cells(self.skeleton, self.holes, cells))
        try:
            g = TransformToGfm().transform(_TOK8.transform(d, show_debug=False))
        except Exception:  # noqa
            return SKIP
        if not (norm(g) == norm(_MD.render(d))):
            return SKIP  # C03's finding: the rules act on a wrong structure
        o = app.run_main(self.argv, [(F, d)])
        if scan_props.mentions(o.err, "Error") or o.code == 1:
            return SKIP
        d1 = content(o)
        if d1 == d:
            return ("same", d, d1, None, None)
        return ("changed", d, d1, rfp.fingerprint(_MD.parse(d)), rfp.fingerprint(_MD.parse(d1)))

    def judge(self, obs, v):
        if isinstance(obs, Raised):
            return raised_verdict(obs)
        kind, d, d1, f0, f1 = obs
        if kind == "same":
            return []
        if not (f0 == f1):
            return [{"kind": "meaning-changed", "detail": {"fixed": d1, "before": f0, "after": f1}}]
        return []

    def digest(self, obs, rv):
        if isinstance(obs, Raised):
            return "raised:" + obs.root_type + "@" + obs.site
        with NoTracing():
            f = obs[3]
            return obs[0] + ":" + (" ".join(x if isinstance(x, str) else x[0] for x in env.deep_realize(f)) if f else "")


HARNESSES["c08"] = C08Harness
