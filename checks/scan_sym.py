"""Symbolic harnesses of the scan family (whole application over the VFS)."""
from checks import scan_props
from engine import app, docs, env
from engine.driver import SKIP, Raised
from engine.env import NoTracing, build_cells, sym_doc, valid_cell

F = "/vfs/f.md"


def raised_verdict(obs):
    """An exception that escaped the application into the harness: a tokenization error is
    C01's finding (the other properties quantify over documents that parse); anything else
    makes the path inconclusive -- it is never reported as a violation of this property."""
    if obs.outer_type == "BadTokenizationError":
        return []
    raise env.CrosshairUnsupported("exception escaped into the harness: " + obs.outer_type + "/" + obs.root_type + "@" + obs.site)


class DocMixin:
    restrict_domain = True
    allow_cr = False

    def _init_doc(self, params):
        self.p = params
        self.template = params.get("template")  # G3: [str | ["rep", char, lo, hi]]
        self.skeleton = params.get("skeleton", "")
        self.holes = list(params.get("holes", []))

    def variables(self):
        if self.template:
            return [(f"n{i}", "int") for i, part in enumerate(x for x in self.template if not isinstance(x, str))]
        return [(f"c{i}", "int") for i in range(len(self.holes))]

    def doc_from_template(self, v):
        """G3 structural counters: the repetition counts are z3 Ints (enumerated by branching
        within their stated ranges when the string is built)."""
        out = []
        k = 0
        for part in self.template:
            if isinstance(part, str):
                out.append(part)
            else:
                _, ch, lo, hi = part
                n = v[f"n{k}"]
                k += 1
                if not (lo <= n <= hi):
                    return None
                m = lo
                while m < hi and not (n == m):
                    m += 1
                out.append(ch * m)
        return "".join(out)

    def doc(self, v):
        if self.template:
            return self.doc_from_template(v)
        cells = [v[f"c{i}"] for i in range(len(self.holes))]
        if self.p.get("alphabet"):
            for c in cells:
                if not docs.in_alphabet(c, self.p["alphabet"]):
                    return None
            # tiny alphabet: let the solver enumerate it now (cheaper than carrying the cells
            # through CrossHair's Unicode tables; same policy as DESIGN 2.7)
            cells = [env.realize(c) for c in cells]
        for c in cells:
            if not valid_cell(c, allow_cr=self.allow_cr):
                return None
        if self.p.get("domain") == "finite":
            for c in cells:
                if not docs.in_finite(c):
                    return None
            cells = [env.realize(c) for c in cells]
        for i, k in enumerate(self.p.get("classes") or []):
            if not docs.in_class(cells[i], k):
                return None
        return sym_doc(build_cells(self.skeleton, self.holes, cells))


class C07Harness(DocMixin):
    """params: skeleton, holes, selection ('default'|'all'|'only:<id>')"""

    def __init__(self, params):
        self._init_doc(params)
        self.argv = app.rule_args(params.get("selection", "default")) + ["scan", F]
        app.the_vfs()

    def body(self, v):
        d = self.doc(v)
        if d is None:
            return SKIP
        o1 = app.run_main(self.argv, [(F, d)])
        o2 = app.run_main(self.argv, [(F, d)])
        return (d, o1, o2)

    def judge(self, obs, v):
        if isinstance(obs, Raised):
            return raised_verdict(obs)
        d, o1, o2 = obs
        return scan_props.c07(d, o1.fail_tuples(), o2.fail_tuples(), o1.err, o1.code)

    def digest(self, obs, rv):
        if isinstance(obs, Raised):
            return "raised:" + obs.root_type + "@" + obs.site
        d, o1, o2 = obs
        with NoTracing():
            return f"{o1.code}:" + ",".join(sorted({f.rule_id for f in o1.fails}))


HARNESSES = {"c07": C07Harness}


class C07OrderKernel:
    """PluginScanFailure.__lt__ + sorted(): three failures with unbounded symbolic line/column
    and rule ids from a 3-element set are ordered by (line, column, rule id)."""

    IDS = ["MD001", "MD010", "PML100"]

    def __init__(self, params):
        self.p = params

    def variables(self):
        out = []
        for i in range(3):
            out += [(f"l{i}", "int"), (f"c{i}", "int"), (f"r{i}", "int")]
        return out

    def body(self, v):
        from pymarkdown.plugin_manager.plugin_scan_failure import PluginScanFailure

        fs = []
        for i in range(3):
            r = v[f"r{i}"]
            if not (0 <= r <= 2):
                return SKIP
            rid = self.IDS[0] if r == 0 else (self.IDS[1] if r == 1 else self.IDS[2])
            fs.append(PluginScanFailure("f", v[f"l{i}"], v[f"c{i}"], rid, "n", "d", None))
        return (fs, sorted(fs))

    def judge(self, obs, v):
        if isinstance(obs, Raised):
            return raised_verdict(obs)
        fs, ordered = obs
        out = []
        for a, b in zip(ordered, ordered[1:]):
            ka = (a.line_number, a.column_number, a.rule_id)
            kb = (b.line_number, b.column_number, b.rule_id)
            if ka > kb:
                out.append({"kind": "sort-order", "detail": {"a": list(ka), "b": list(kb)}})
        for a in fs:
            if a < a:
                out.append({"kind": "not-irreflexive", "detail": {}})
        return out

    def digest(self, obs, rv):
        if isinstance(obs, Raised):
            return "raised"
        fs, ordered = obs
        with NoTracing():
            return ",".join(str(fs.index(o)) for o in ordered)


HARNESSES["c07order"] = C07OrderKernel


def _bag(fails):
    """sorted multiset of (line, col, rule id, extra)"""
    return sorted((f.line_number, f.column_number, f.rule_id, f.extra_error_information or "") for f in fails)


class C12Harness(DocMixin):
    """Rule independence.  params: skeleton, holes, minus (bool: also default-minus-each).
    One path scans the same symbolic document with: all rules, the default set, every rule
    alone (and default minus every default rule), each through its own real PluginManager +
    FileScanHelper built once per worker."""

    _scanners = {}

    def __init__(self, params):
        self._init_doc(params)
        app.the_vfs()
        self.table = env.rule_table()
        self.ids = [r[0] for r in self.table if r[0] != "md999"]
        self.default_ids = [r[0] for r in self.table if r[2] and r[0] != "md999"]
        self.minus = bool(params.get("minus"))
        with NoTracing():
            self._get("all")
            self._get("default")
            for rid in self.ids:
                self._get("only:" + rid)
            if self.minus:
                for rid in self.default_ids:
                    self._get("minus:" + rid)

    def _get(self, sel):
        sc = C12Harness._scanners.get(sel)
        if sc is None:
            if sel == "all":
                sc = env.Scanner(enable=",".join(self.ids))
            elif sel == "default":
                sc = env.Scanner()
            elif sel.startswith("only:"):
                sc = env.Scanner(*env.only_rule(sel[5:]))
            else:
                sc = env.Scanner(disable=sel[6:])
            C12Harness._scanners[sel] = sc
        return sc

    def scan(self, sel, d):
        V = app.the_vfs()
        V.reset()
        V.put(F, d)
        sc = self._get(sel)
        try:
            sc.run([F])
        except SystemExit:
            return None
        if sc.errors:
            return None
        return _bag(sc.pres.fails)

    def body(self, v):
        d = self.doc(v)
        if d is None:
            return SKIP
        res = {"all": self.scan("all", d), "default": self.scan("default", d)}
        for rid in self.ids:
            res["only:" + rid] = self.scan("only:" + rid, d)
        if self.minus:
            for rid in self.default_ids:
                res["minus:" + rid] = self.scan("minus:" + rid, d)
        return (d, res)

    def judge(self, obs, v):
        if isinstance(obs, Raised):
            return raised_verdict(obs)
        d, res = obs
        return scan_props.c12(res, self.ids, self.default_ids)

    def digest(self, obs, rv):
        if isinstance(obs, Raised):
            return "raised:" + obs.root_type + "@" + obs.site
        d, res = obs
        with NoTracing():
            a = res.get("all")
            return "err" if a is None else ",".join(sorted({x[2] for x in a}))


HARNESSES["c12"] = C12Harness


import os as _os
import sys as _sys

_PLUG = _os.path.join(env.VERIF, "plugins")
RECORDER = _os.path.join(_PLUG, "recorder_rule.py")
RECORDER_FIX = _os.path.join(_PLUG, "recorder_fix_rule.py")


def recorder():
    if _PLUG not in _sys.path:
        _sys.path.insert(0, _PLUG)
    import recorder_rule

    return recorder_rule.RecorderRule


_PTOK = None


def direct_tokens(d):
    """token stream obtained directly from the parser, pragma token removed"""
    global _PTOK
    if _PTOK is None:
        with NoTracing():
            _PTOK = env.make_tokenizer()
    try:
        toks = _PTOK.transform(d, show_debug=False, do_add_end_of_stream_token=True)
    except Exception:  # noqa
        return None
    if toks and toks[-1].is_pragma:
        toks = toks[:-1]
    return toks


class C14Harness(DocMixin):
    """params: skeleton, holes, second (optional second file text), disabled (bool)"""

    def __init__(self, params):
        self._init_doc(params)
        self.second = params.get("second")
        self.disabled = bool(params.get("disabled"))
        self.argv = ["--add-plugin", RECORDER] + (["-d", "vpr001"] if self.disabled else []) + ["scan", F] + (["/vfs/g.md"] if self.second is not None else [])
        app.the_vfs()
        self.R = recorder()

    def body(self, v):
        d = self.doc(v)
        if d is None:
            return SKIP
        self.R.reset()
        files = [(F, d)] + ([("/vfs/g.md", self.second)] if self.second is not None else [])
        o = app.run_main(self.argv, files)
        log = list(self.R.LOG)
        docs_in_order = [d] + ([self.second] if self.second is not None else [])
        toks = [direct_tokens(x) for x in docs_in_order]
        return (o, log, docs_in_order, toks)

    def judge(self, obs, v):
        if isinstance(obs, Raised):
            return raised_verdict(obs)
        o, log, ds, toks = obs
        if scan_props.mentions(o.err, "Error"):
            return []
        return scan_props.c14(log, ds, toks, enabled=not self.disabled)

    def digest(self, obs, rv):
        if isinstance(obs, Raised):
            return "raised:" + obs.root_type + "@" + obs.site
        o, log, ds, toks = obs
        with NoTracing():
            return "".join(e[0][0] for e in log)[:120]


HARNESSES["c14"] = C14Harness


def _api_tuples(result):
    return [(f.line_number, f.column_number, f.rule_id, f.rule_name, f.extra_error_information) for f in result.scan_failures]


class C16Harness(DocMixin):
    """All entry points on the same symbolic document (CR allowed).
    params: skeleton, holes, disable (optional rule id disabled both ways), stack_trace"""

    allow_cr = True

    def __init__(self, params):
        self._init_doc(params)
        self.disable = params.get("disable")
        self.pre = (["-d", self.disable] if self.disable else []) + (["--stack-trace"] if params.get("stack_trace") else [])
        app.the_vfs()

    def api(self):
        from pymarkdown.api import PyMarkdownApi

        a = PyMarkdownApi(inherit_logging=True)
        if self.disable:
            a = a.disable_rule_by_identifier(self.disable)
        return a

    def body(self, v):
        from pymarkdown.api import PyMarkdownApiException

        d = self.doc(v)
        if d is None:
            return SKIP
        V = app.the_vfs()
        routes = {}
        o = app.run_main(self.pre + ["scan", F], [(F, d)])
        failed = scan_props.mentions(o.err, "Error")
        routes["scan-file"] = None if failed else o.fail_tuples()
        o2 = app.run_main(self.pre + ["scan-stdin"], [], stdin=d)
        routes["scan-stdin"] = None if scan_props.mentions(o2.err, "Error") else o2.fail_tuples()
        left = [n for n, _ in o2.files]
        if len(d) > 0:
            V.reset()
            try:
                routes["api-scan_string"] = _api_tuples(self.api().scan_string(d))
            except PyMarkdownApiException:
                routes["api-scan_string"] = None
            left += [n for n, _ in V.files]
        V.reset()
        V.put(F, d)
        try:
            routes["api-scan_path"] = _api_tuples(self.api().scan_path(F))
        except PyMarkdownApiException:
            routes["api-scan_path"] = None
        fixed = {}
        o3 = app.run_main(self.pre + ["fix", F], [(F, d)])
        fixed["fix-file"] = None if (scan_props.mentions(o3.err, "Error") or o3.code == 1) else [t for n, t in o3.files if n == F][0]
        if len(d) > 0:
            V.reset()
            try:
                fixed["api-fix_string"] = self.api().fix_string(d).fixed_file
            except PyMarkdownApiException:
                fixed["api-fix_string"] = None
            left += [n for n, _ in V.files]
        return (d, routes, fixed, left)

    def judge(self, obs, v):
        if isinstance(obs, Raised):
            return raised_verdict(obs)
        d, routes, fixed, left = obs
        out = scan_props.c16(routes, fixed)
        if left:
            out.append({"kind": "temp-file-left", "detail": {"files": left}})
        return out

    def digest(self, obs, rv):
        if isinstance(obs, Raised):
            return "raised:" + obs.root_type + "@" + obs.site
        d, routes, fixed, left = obs
        with NoTracing():
            r = routes.get("scan-file")
            return "err" if r is None else ",".join(sorted({x[2] for x in r})) + "|" + ",".join(k for k, val in routes.items() if val is None)


HARNESSES["c16"] = C16Harness


A, B = "/vfs/a.md", "/vfs/b.md"


class C13Harness:
    """No carry-over: processing [d1, d2] in one invocation gives for d2 what d2 alone gives.
    params: sk1/holes1 (first document), sk2/holes2 (second), mode scan|fix, api (bool: one
    PyMarkdownApi object reused for scan_string(d1), scan_string(d2)), triple (d1,d2,d1)."""

    restrict_domain = True

    def __init__(self, params):
        self.p = params
        self.sk1, self.h1 = params["sk1"], list(params["holes1"])
        self.sk2, self.h2 = params["sk2"], list(params["holes2"])
        self.mode = params.get("mode", "scan")
        self.api = bool(params.get("api"))
        self.pre = app.rule_args(params.get("selection", "default"))
        app.the_vfs()

    def variables(self):
        v = [(f"c{i}", "int") for i in range(len(self.h1) + len(self.h2))]
        if self.p.get("seconds"):
            v.append(("j", "int"))  # which document of the pool comes second (z3 Int)
        return v

    def body(self, v):
        if self.p.get("seconds"):
            pool = self.p["seconds"]
            j = v["j"]
            if not (0 <= j < len(pool)):
                return SKIP
            k = 0
            while k < len(pool) - 1 and not (j == k):
                k += 1
            self.sk2, self.h2 = pool[k], []
        cells = [v[f"c{i}"] for i in range(len(self.h1) + len(self.h2))]
        for c in cells:
            if not valid_cell(c):
                return SKIP
        if self.p.get("domain") == "finite":
            for c in cells:
                if not docs.in_finite(c):
                    return SKIP
            cells = [env.realize(c) for c in cells]
        d1 = sym_doc(build_cells(self.sk1, self.h1, cells[: len(self.h1)]))
        d2 = sym_doc(build_cells(self.sk2, self.h2, cells[len(self.h1):]))
        if self.api:
            return self.body_api(d1, d2)
        om = app.run_main(self.pre + [self.mode, A, B], [(A, d1), (B, d2)])
        os_ = app.run_main(self.pre + [self.mode, B], [(B, d2)])
        if scan_props.mentions(om.err, "Error") or scan_props.mentions(os_.err, "Error"):
            return ("error", d1, d2)
        mf = [t[1:] for t in om.fail_tuples(with_file=True) if t[0] == B]
        sf = [t[1:] for t in os_.fail_tuples(with_file=True)]
        mp = [p[1:] for p in om.pragma if p[0] == B]
        sp = [p[1:] for p in os_.pragma]
        mt = [t for n, t in om.files if n == B][0]
        st = [t for n, t in os_.files if n == B][0]
        return ("ok", d1, d2, mf, sf, mp, sp, mt, st, B in om.fixed, B in os_.fixed)

    def body_api(self, d1, d2):
        from pymarkdown.api import PyMarkdownApi, PyMarkdownApiException

        if len(d1) == 0 or len(d2) == 0:
            return SKIP
        V = app.the_vfs()
        V.reset()
        try:
            one = PyMarkdownApi(inherit_logging=True)
            one.scan_string(d1)
            r_m = one.scan_string(d2)
            r_s = PyMarkdownApi(inherit_logging=True).scan_string(d2)
        except PyMarkdownApiException:
            return ("error", d1, d2)
        mf, sf = _api_tuples(r_m), _api_tuples(r_s)
        mp = [(p.line_number, p.pragma_error) for p in r_m.pragma_errors]
        sp = [(p.line_number, p.pragma_error) for p in r_s.pragma_errors]
        return ("ok", d1, d2, mf, sf, mp, sp, "", "", False, False)

    def judge(self, obs, v):
        if isinstance(obs, Raised):
            return raised_verdict(obs)
        if obs[0] == "error":
            return []
        _, d1, d2, mf, sf, mp, sp, mt, st, mfx, sfx = obs
        return scan_props.c13(mf, sf, mp, sp, mt, st, mfx, sfx)

    def digest(self, obs, rv):
        if isinstance(obs, Raised):
            return "raised:" + obs.root_type + "@" + obs.site
        if obs[0] == "error":
            return "error"
        with NoTracing():
            return ",".join(sorted({x[2] for x in obs[4]}))


HARNESSES["c13"] = C13Harness


class C18Kernel:
    """ReturnCodeHelper: symbolic outcome category x scheme (chosen by argument or by
    configuration) against the documented table."""

    def __init__(self, params):
        self.p = params

    def variables(self):
        return [("cat", "int"), ("minimal", "bool"), ("by_config", "bool")]

    def body(self, v):
        import argparse

        from application_properties import ApplicationProperties
        from pymarkdown.return_code_helper import ApplicationResult, ReturnCodeHelper

        cat = v["cat"]
        if not (0 <= cat <= 5):
            return SKIP
        results = [ApplicationResult.SUCCESS, ApplicationResult.NO_FILES_TO_SCAN, ApplicationResult.COMMAND_LINE_ERROR,
                   ApplicationResult.FIXED_AT_LEAST_ONE_FILE, ApplicationResult.SCAN_TRIGGERED_AT_LEAST_ONCE, ApplicationResult.SYSTEM_ERROR]
        names = ["success", "no-files", "command-line", "fixed", "failures", "system-error"]
        idx = 0
        while idx < 5 and not (cat == idx):
            idx += 1
        props = ApplicationProperties()
        scheme = "minimal" if v["minimal"] else "default"
        ReturnCodeHelper.reset()
        if v["by_config"]:
            props.load_from_dict({"mode": {"return_code_scheme": scheme}})
            args = argparse.Namespace(return_code_scheme=None)
        else:
            args = argparse.Namespace(return_code_scheme=scheme)
        ReturnCodeHelper.set_initial_state(args, props)
        try:
            ReturnCodeHelper.exit_application(results[idx])
            code = None
        except SystemExit as e:
            code = e.code
        return (code, names[idx], bool(v["minimal"]))

    def judge(self, obs, v):
        if isinstance(obs, Raised):
            return raised_verdict(obs)
        code, name, minimal = obs
        return scan_props.c18(code, [], [], [], minimal, forced_category=name)

    def digest(self, obs, rv):
        if isinstance(obs, Raised):
            return "raised"
        return f"{obs[1]}/{obs[2]}"


class C18Harness(DocMixin):
    """Whole program.  params: scenario, skeleton/holes (document of the symbolic file),
    minimal (bool), scheme_by ('arg'|'set')."""

    GOOD = "# ok\n"
    BAD = "x  \n\n\ny"

    def __init__(self, params):
        self._init_doc(params)
        self.sc = params["scenario"]
        self.minimal = bool(params.get("minimal"))
        self.pre = []
        if self.minimal:
            self.pre = ["--return-code-scheme", "minimal"] if params.get("scheme_by", "arg") == "arg" else ["-s", "mode.return_code_scheme=minimal"]
        app.the_vfs()
        self.R = recorder()

    def variables(self):
        v = DocMixin.variables(self)
        if self.sc.startswith("fault"):
            v = v + [("k", "int")]
        return v

    def body(self, v):
        d = self.doc(v)
        if d is None:
            return SKIP
        sc = self.sc
        self.R.reset()
        if sc == "scan1":
            o = app.run_main(self.pre + ["scan", F], [(F, d)])
        elif sc == "fix1":
            o = app.run_main(self.pre + ["fix", F], [(F, d)])
        elif sc == "scan2":
            o = app.run_main(self.pre + ["scan", A, B], [(A, d), (B, self.BAD)])
        elif sc == "fix2":
            o = app.run_main(self.pre + ["fix", A, B], [(A, d), (B, self.GOOD)])
        elif sc == "stdin":
            o = app.run_main(self.pre + ["scan-stdin"], [], stdin=d)
        elif sc == "list":
            o = app.run_main(self.pre + ["scan", "-l", F], [(F, d)])
        elif sc in ("fault", "fault-continue", "fault-fix"):
            k = v["k"]
            if not (0 <= k <= 60):
                return SKIP
            self.R.reset(fault_at=k)
            argv = self.pre + ["--add-plugin", RECORDER] + (["--continue-on-error"] if sc == "fault-continue" else []) + ["fix" if sc == "fault-fix" else "scan", A, B]
            o = app.run_main(argv, [(A, d), (B, self.BAD)])
        else:
            raise ValueError(sc)
        return o

    def judge(self, obs, v):
        if isinstance(obs, Raised):
            return raised_verdict(obs)
        o = obs
        fails = o.fails
        if self.sc == "list":
            fails = []
        return scan_props.c18(o.code, o.err, fails, o.fixed, self.minimal)

    def digest(self, obs, rv):
        if isinstance(obs, Raised):
            return "raised:" + obs.root_type + "@" + obs.site
        with NoTracing():
            se, nf = scan_props.classify_err(env.deep_realize(obs.err))
            return f"{self.sc}:{obs.code}:{se}:{nf}:{bool(obs.fails)}:{bool(obs.fixed)}"


HARNESSES["c18kernel"] = C18Kernel
HARNESSES["c18"] = C18Harness


class C18Concrete:
    """argv-shaped outcome categories that do not depend on a document: one path each,
    executed through the same driver so that they appear in the evidence; the deciding
    symbolic parts of C18 are the kernel and the document/fault scenarios."""

    def __init__(self, params):
        self.p = params
        app.the_vfs()

    def variables(self):
        return []

    def body(self, v):
        pre = ["--return-code-scheme", "minimal"] if self.p.get("minimal") else []
        files = [("/vfs/bad.json", "{ not json"), ("/vfs/cfg.json", '{"plugins": {"md013": {"line_length": "x"}}}'), (F, "# ok\n")]
        return app.run_main(pre + list(self.p["argv"]), files)

    def judge(self, obs, v):
        if isinstance(obs, Raised):
            return raised_verdict(obs)
        return scan_props.c18(obs.code, obs.err, obs.fails, obs.fixed, bool(self.p.get("minimal")), forced_category=self.p["category"])

    def digest(self, obs, rv):
        return "raised" if isinstance(obs, Raised) else f"{self.p['category']}:{obs.code}"


HARNESSES["c18concrete"] = C18Concrete


class ParserFault:
    """raise inside the parser at its j-th invocation (wraps the block pass; the exception is
    turned into BadTokenizationError by the parser's own handler)"""

    count = 0
    at = None
    fired = False
    installed = False

    @classmethod
    def install(cls):
        if cls.installed:
            return
        cls.installed = True
        from pymarkdown.general.tokenized_markdown import TokenizedMarkdown

        name = "_TokenizedMarkdown__parse_blocks_pass"
        orig = getattr(TokenizedMarkdown, name)

        def wrapped(self, *a, **k):
            n = ParserFault.count
            ParserFault.count = n + 1
            if ParserFault.at is not None and ParserFault.at == n:
                ParserFault.fired = True
                raise RuntimeError("injected parser fault")
            return orig(self, *a, **k)

        setattr(TokenizedMarkdown, name, wrapped)

    @classmethod
    def reset(cls, at=None):
        cls.count = 0
        cls.at = at
        cls.fired = False


class C15Harness(DocMixin):
    """params: scenario plugin-fault|parser-fault|undecodable|crash, mode scan|fix,
    cont (bool), which (for undecodable: 'a'|'b'), skeleton/holes = document A."""

    OTHER = "x  \n\n- p\n  - q\n\n\n# y"

    def __init__(self, params):
        self._init_doc(params)
        self.sc = params["scenario"]
        self.mode = params.get("mode", "scan")
        self.cont = bool(params.get("cont"))
        self.base = ["--add-plugin", RECORDER_FIX if params.get("fixrule") else RECORDER]
        self.argv = self.base + (["--continue-on-error"] if self.cont else []) + [self.mode, A, B]
        app.the_vfs()
        self.R = recorder()
        ParserFault.install()

    def variables(self):
        v = DocMixin.variables(self)
        if self.sc in ("plugin-fault", "parser-fault", "crash"):
            v = v + [("k", "int")]
        return v

    def body(self, v):
        d = self.doc(v)
        if d is None:
            return SKIP
        k = v.get("k")
        if k is not None and not (0 <= k <= 80):
            return SKIP
        originals = {A: d, B: self.OTHER}
        # reference runs without any fault
        self.R.reset()
        ParserFault.reset()
        fixed_alone = {}
        other_alone = None
        if self.mode == "fix":
            for p in (A, B):
                o = app.run_main(self.base + ["fix", p], [(p, originals[p])])
                fixed_alone[p] = scan_props.dict_of(o.files).get(p)
        if self.cont:
            oo = app.run_main(self.base + [self.mode, B], [(B, self.OTHER)])
            other_alone = [t[1:] for t in oo.fail_tuples(with_file=True)]
        self.R.reset(fault_at=k if self.sc == "plugin-fault" else None)
        ParserFault.reset(at=k if self.sc == "parser-fault" else None)
        files = [(A, d), (B, self.OTHER)]
        if self.sc == "undecodable":
            bad = A if self.p.get("which", "a") == "a" else B
            o = app.run_main(self.argv, files, undecodable=[bad])
            faulted, fault_file = True, bad
            originals = dict(originals)
            originals[bad] = None
            other_alone = None  # the continue-on-error clause is about plugin and parser failures
        elif self.sc == "crash":
            o = app.run_main(self.argv, files, crash_at=k)
            return ("crash", o, o.code == "crash", originals, fixed_alone)
        else:
            o = app.run_main(self.argv, files)
            if self.sc == "plugin-fault":
                faulted, fault_file = self.R.FAULTED, self.R.FAULT_FILE
            else:
                faulted, fault_file = ParserFault.fired, None
        self.R.reset()
        ParserFault.reset()
        return ("fault", o, faulted, fault_file, originals, fixed_alone, other_alone)

    def judge(self, obs, v):
        if isinstance(obs, Raised):
            return raised_verdict(obs)
        if obs[0] == "crash":
            _, o, crashed, originals, fixed_alone = obs
            return scan_props.c15_crash(o.files, crashed, [A, B], originals, fixed_alone)
        _, o, faulted, fault_file, originals, fixed_alone, other_alone = obs
        other = B if fault_file != B else A
        return scan_props.c15_fault(o, [A, B], faulted, fault_file, self.cont, self.mode, originals, fixed_alone,
                                    other_alone if other == B else None, other)

    def digest(self, obs, rv):
        if isinstance(obs, Raised):
            return "raised:" + obs.root_type + "@" + obs.site
        with NoTracing():
            o = obs[1]
            return f"{self.sc}:{obs[2]}:{o.code}:{len(o.fails)}:{rv.get('k')}"


HARNESSES["c15"] = C15Harness


def masked_tokens(tokens):
    """(name, line, col, str with the token's own position masked)"""
    out = []
    for t in tokens:
        s = str(t).replace(f"({t.line_number},{t.column_number})", "(L,C)", 1)
        out.append((t.token_name, t.line_number, t.column_number, s))
    return out


class C11Harness(DocMixin):
    """params: skeleton/holes (document d), at (0-based line index where the pragma line is
    inserted), prefix '<!--'|'<!---', command, n (for disable-num-lines), ids (text after
    the command/count), named (rule ids in lower case that the pragma names), wellformed."""

    def __init__(self, params):
        self._init_doc(params)
        self.at = params["at"]
        self.command = params.get("command", "disable-next-line")
        self.n = params.get("n", 1)
        self.named = set(params.get("named", []))
        self.wellformed = params.get("wellformed", True)
        self.line = params["pragma"]
        self.argv = app.rule_args(params.get("selection", "all")) + ["scan", F]
        app.the_vfs()

    def body(self, v):
        d = self.doc(v)
        if d is None:
            return SKIP
        dp = scan_props.insert_line(d, self.at, self.line)
        o_d = app.run_main(self.argv, [(F, d)])
        o_p = app.run_main(self.argv, [(F, dp)])
        td, tp = direct_tokens(d), direct_tokens(dp)
        if td is not None and tp is not None:
            # containers a pragma line cannot be transparent in are excluded below (judge)
            td, tp = masked_tokens(td), masked_tokens(tp)
        return (d, dp, o_d, o_p, td, tp)

    def judge(self, obs, v):
        if isinstance(obs, Raised):
            return raised_verdict(obs)
        d, dp, o_d, o_p, td, tp = obs
        if scan_props.mentions(o_d.err, "Error") or scan_props.mentions(o_p.err, "Error"):
            return []
        pr = [p[1:] for p in o_p.pragma]
        return scan_props.c11_pipeline(o_d.fail_tuples(), o_p.fail_tuples(), pr, self.at, self.command, self.n, self.named, self.wellformed, td, tp)

    def digest(self, obs, rv):
        if isinstance(obs, Raised):
            return "raised:" + obs.root_type + "@" + obs.site
        with NoTracing():
            return f"{len(obs[2].fails)}->{len(obs[3].fails)}:" + ",".join(sorted({f.rule_id for f in obs[2].fails}))


class C11Kernel:
    """PluginManager.compile_pragmas + log_scan_failure: pragma at line p (param), command
    disable-num-lines with a count written as 1-2 symbolic digit cells (finite alphabet,
    DESIGN 2.7) or disable-next-line; failure of the named / another rule at symbolic line l."""

    _pm = None

    def __init__(self, params):
        from application_properties import ApplicationProperties
        from pymarkdown.plugin_manager.plugin_manager import PluginManager

        self.p = params
        self.pl = params["p"]
        self.command = params["command"]
        self.nd = params.get("digits", 1)
        self.ident = params.get("ident", "md013")
        self.alt = params.get("prefix", "<!--") == "<!---"
        if C11Kernel._pm is None:
            with NoTracing():
                pres = env.Pres()
                pm = PluginManager(pres)
                pm.initialize(env.plugin_dir(), [], "", "", ApplicationProperties(), False, False)
                C11Kernel._pm = (pm, pres)

    def variables(self):
        return [("l", "int"), ("other", "bool")] + [(f"d{i}", "int") for i in range(self.nd if self.command == "disable-num-lines" else 0)]

    def body(self, v):
        from pymarkdown.plugin_manager.plugin_scan_failure import PluginScanFailure

        pm, pres = C11Kernel._pm
        l = v["l"]
        if not (1 <= l <= 14):
            return SKIP
        digits = []
        if self.command == "disable-num-lines":
            for i in range(self.nd):
                c = v[f"d{i}"]
                if not (48 <= c <= 57):  # ASCII digits; other int()-accepted spellings are outside the claim
                    return SKIP
                digits.append(c)
        prefix = "<!---" if self.alt else "<!--"
        head = [ord(x) for x in f"{prefix} pyml {self.command} "]
        tail = [ord(x) for x in ((" " if digits else "") + f"{self.ident}-->")]
        line = sym_doc(head + digits + tail)
        pres.clear()
        pm.starting_new_file("f")
        key = -self.pl if self.alt else self.pl
        pm.compile_pragmas("f", {key: line})
        rule = "MD047" if v["other"] else "MD013"
        pm.log_scan_failure(PluginScanFailure("f", l, 1, rule, "n", "d", None))
        n = 0
        for c in digits:
            n = n * 10 + (c - 48)
        return (len(pres.fails) == 0, len(pres.pragma), n, l, bool(v["other"]))

    def judge(self, obs, v):
        if isinstance(obs, Raised):
            return [{"kind": "exception", "detail": obs.describe()}]
        suppressed, nerr, n, l, other = obs
        p = self.pl
        known = self.ident in ("md013", "line-length")
        if self.command == "disable-next-line":
            want_sup = known and (not other) and l == p + 1
            want_err = 0 if known else 1
        else:
            ok = n >= 1
            want_sup = ok and known and (not other) and (p + 1 <= l <= p + n)
            want_err = 0 if (ok and known) else 1
        out = []
        if bool(suppressed) != bool(want_sup):
            out.append({"kind": "suppression", "detail": {"suppressed": bool(suppressed), "expected": bool(want_sup), "pragma_line": p, "failure_line": l, "count": n, "other_rule": other}})
        if nerr != want_err:
            out.append({"kind": "pragma-error-count", "detail": {"errors": nerr, "expected": want_err, "count": n}})
        return out

    def digest(self, obs, rv):
        if isinstance(obs, Raised):
            return "raised"
        return f"{obs[0]}:{obs[1]}:{obs[4]}"


HARNESSES["c11"] = C11Harness
HARNESSES["c11kernel"] = C11Kernel


class C11Kernel2:
    """Two pragmas in one document (real compile_pragmas + log_scan_failure): a
    disable-next-line at line p1 naming rule A and a disable-num-lines N at line p2 naming rule
    B, p1/p2 in 1..4, N in 1..4, failure line l in 1..9 and the failing rule (A, B or a third) all
    z3 Ints (small ranges, enumerated by branching because they become dictionary keys / pragma
    text): suppressed iff some pragma names the rule and covers l."""

    RULES = ["MD013", "MD047", "MD009"]

    def __init__(self, params):
        C11Kernel.__init__(self, dict(params, p=1, command="disable-next-line"))
        self.p = params
        self.kinds = params.get("kinds", ["disable-next-line", "disable-num-lines"])

    def variables(self):
        return [("p1", "int"), ("p2", "int"), ("l", "int"), ("r", "int"), ("d", "int")]

    def body(self, v):
        from pymarkdown.plugin_manager.plugin_scan_failure import PluginScanFailure

        pm, pres = C11Kernel._pm
        p1, p2, l, r, d = v["p1"], v["p2"], v["l"], v["r"], v["d"]
        if not (1 <= p1 <= 4 and 1 <= p2 <= 4 and 1 <= l <= 9 and 0 <= r <= 2 and 49 <= d <= 52):
            return SKIP
        dd = 49
        while dd < 52 and not (d == dd):
            dd += 1
        d = dd
        if p1 == p2:
            return SKIP
        # concrete dictionary keys (hashing site, DESIGN 2.7): enumerate the small line range
        a = 1
        while a < 4 and not (p1 == a):
            a += 1
        b = 1
        while b < 4 and not (p2 == b):
            b += 1
        lines = {}
        if self.kinds[0] == "disable-next-line":
            lines[a] = "<!-- pyml disable-next-line md013-->"
        else:
            lines[a] = sym_doc([ord(x) for x in "<!-- pyml disable-num-lines "] + [d] + [ord(x) for x in " md013-->"])
        lines[b] = sym_doc([ord(x) for x in "<!-- pyml disable-num-lines "] + [d] + [ord(x) for x in " md047-->"])
        pres.clear()
        pm.starting_new_file("f")
        pm.compile_pragmas("f", lines)
        k = 0
        while k < 2 and not (r == k):
            k += 1
        rule = self.RULES[k]
        pm.log_scan_failure(PluginScanFailure("f", l, 1, rule, "n", "d", None))
        return (len(pres.fails) == 0, len(pres.pragma), a, b, l, rule, d - 48)

    def judge(self, obs, v):
        if isinstance(obs, Raised):
            return [{"kind": "exception", "detail": obs.describe()}]
        suppressed, nerr, a, b, l, rule, n = obs
        if self.kinds[0] == "disable-next-line":
            cover_a = l == a + 1
        else:
            cover_a = a + 1 <= l <= a + n
        cover_b = b + 1 <= l <= b + n
        want = (rule == "MD013" and cover_a) or (rule == "MD047" and cover_b)
        out = []
        if bool(suppressed) != bool(want):
            out.append({"kind": "suppression", "detail": {"suppressed": bool(suppressed), "expected": bool(want), "first_pragma_line": a, "second_pragma_line": b, "failure_line": l, "rule": rule, "count": n}})
        if nerr != 0:
            out.append({"kind": "pragma-error-count", "detail": {"errors": nerr, "expected": 0}})
        return out

    def digest(self, obs, rv):
        if isinstance(obs, Raised):
            return "raised"
        return f"{obs[0]}:{obs[5]}"


HARNESSES["c11kernel2"] = C11Kernel2


class C14FixHarness(DocMixin):
    """fix mode life-cycle shape for a non-fix recorder and a fix-capable recorder."""

    def __init__(self, params):
        self._init_doc(params)
        self.fixrule = bool(params.get("fixrule"))
        self.argv = ["--add-plugin", RECORDER_FIX if self.fixrule else RECORDER, "fix", F]
        app.the_vfs()
        self.R = recorder()

    def body(self, v):
        d = self.doc(v)
        if d is None:
            return SKIP
        self.R.reset()
        o = app.run_main(self.argv, [(F, d)])
        log = list(self.R.LOG)
        self.R.reset()
        return (o, log)

    def judge(self, obs, v):
        if isinstance(obs, Raised):
            return raised_verdict(obs)
        o, log = obs
        if scan_props.mentions(o.err, "Error"):
            return []
        return scan_props.c14_fix_shape(log)

    def digest(self, obs, rv):
        if isinstance(obs, Raised):
            return "raised:" + obs.root_type + "@" + obs.site
        with NoTracing():
            return "".join(e[0][0] for e in obs[1])[:80]


HARNESSES["c14fix"] = C14FixHarness
