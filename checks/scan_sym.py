"""Symbolic harnesses of the scan family (whole application over the VFS)."""
from checks import scan_props
from engine import app, docs, env
from engine.driver import SKIP, Raised
from engine.env import NoTracing, build_cells, sym_doc, valid_cell

F = "/vfs/f.md"


class DocMixin:
    restrict_domain = True
    allow_cr = False

    def _init_doc(self, params):
        self.p = params
        self.skeleton = params["skeleton"]
        self.holes = list(params["holes"])

    def variables(self):
        return [(f"c{i}", "int") for i in range(len(self.holes))]

    def doc(self, v):
        cells = [v[f"c{i}"] for i in range(len(self.holes))]
        for c in cells:
            if not valid_cell(c, allow_cr=self.allow_cr):
                return None
        if self.p.get("domain") == "finite":
            for c in cells:
                if not docs.in_finite(c):
                    return None
            cells = [env.realize(c) for c in cells]
        for i, k in enumerate(self.p.get("classes") or []):
            if not docs.in_class(cells[i], k):
                return None
        return sym_doc(build_cells(self.skeleton, self.holes, cells))


class C07Harness(DocMixin):
    """params: skeleton, holes, selection ('default'|'all'|'only:<id>')"""

    def __init__(self, params):
        self._init_doc(params)
        self.argv = app.rule_args(params.get("selection", "default")) + ["scan", F]
        app.the_vfs()

    def body(self, v):
        d = self.doc(v)
        if d is None:
            return SKIP
        o1 = app.run_main(self.argv, [(F, d)])
        o2 = app.run_main(self.argv, [(F, d)])
        return (d, o1, o2)

    def judge(self, obs, v):
        if isinstance(obs, Raised):
            return [{"kind": "harness-exception", "detail": obs.describe()}]
        d, o1, o2 = obs
        return scan_props.c07(d, o1.fail_tuples(), o2.fail_tuples(), o1.err, o1.code)

    def digest(self, obs, rv):
        if isinstance(obs, Raised):
            return "raised:" + obs.root_type + "@" + obs.site
        d, o1, o2 = obs
        with NoTracing():
            return f"{o1.code}:" + ",".join(sorted({f.rule_id for f in o1.fails}))


HARNESSES = {"c07": C07Harness}


class C07OrderKernel:
    """PluginScanFailure.__lt__ + sorted(): three failures with unbounded symbolic line/column
    and rule ids from a 3-element set are ordered by (line, column, rule id)."""

    IDS = ["MD001", "MD010", "PML100"]

    def __init__(self, params):
        self.p = params

    def variables(self):
        out = []
        for i in range(3):
            out += [(f"l{i}", "int"), (f"c{i}", "int"), (f"r{i}", "int")]
        return out

    def body(self, v):
        from pymarkdown.plugin_manager.plugin_scan_failure import PluginScanFailure

        fs = []
        for i in range(3):
            r = v[f"r{i}"]
            if not (0 <= r <= 2):
                return SKIP
            rid = self.IDS[0] if r == 0 else (self.IDS[1] if r == 1 else self.IDS[2])
            fs.append(PluginScanFailure("f", v[f"l{i}"], v[f"c{i}"], rid, "n", "d", None))
        return (fs, sorted(fs))

    def judge(self, obs, v):
        if isinstance(obs, Raised):
            return [{"kind": "harness-exception", "detail": obs.describe()}]
        fs, ordered = obs
        out = []
        for a, b in zip(ordered, ordered[1:]):
            ka = (a.line_number, a.column_number, a.rule_id)
            kb = (b.line_number, b.column_number, b.rule_id)
            if ka > kb:
                out.append({"kind": "sort-order", "detail": {"a": list(ka), "b": list(kb)}})
        for a in fs:
            if a < a:
                out.append({"kind": "not-irreflexive", "detail": {}})
        return out

    def digest(self, obs, rv):
        if isinstance(obs, Raised):
            return "raised"
        fs, ordered = obs
        with NoTracing():
            return ",".join(str(fs.index(o)) for o in ordered)


HARNESSES["c07order"] = C07OrderKernel
