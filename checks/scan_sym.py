"""Symbolic harnesses of the scan family (whole application over the VFS)."""
from checks import scan_props
from engine import app, docs, env
from engine.driver import SKIP, Raised
from engine.env import NoTracing, build_cells, sym_doc, valid_cell

F = "/vfs/f.md"


class DocMixin:
    restrict_domain = True
    allow_cr = False

    def _init_doc(self, params):
        self.p = params
        self.skeleton = params["skeleton"]
        self.holes = list(params["holes"])

    def variables(self):
        return [(f"c{i}", "int") for i in range(len(self.holes))]

    def doc(self, v):
        cells = [v[f"c{i}"] for i in range(len(self.holes))]
        for c in cells:
            if not valid_cell(c, allow_cr=self.allow_cr):
                return None
        if self.p.get("domain") == "finite":
            for c in cells:
                if not docs.in_finite(c):
                    return None
            cells = [env.realize(c) for c in cells]
        for i, k in enumerate(self.p.get("classes") or []):
            if not docs.in_class(cells[i], k):
                return None
        return sym_doc(build_cells(self.skeleton, self.holes, cells))


class C07Harness(DocMixin):
    """params: skeleton, holes, selection ('default'|'all'|'only:<id>')"""

    def __init__(self, params):
        self._init_doc(params)
        self.argv = app.rule_args(params.get("selection", "default")) + ["scan", F]
        app.the_vfs()

    def body(self, v):
        d = self.doc(v)
        if d is None:
            return SKIP
        o1 = app.run_main(self.argv, [(F, d)])
        o2 = app.run_main(self.argv, [(F, d)])
        return (d, o1, o2)

    def judge(self, obs, v):
        if isinstance(obs, Raised):
            return [{"kind": "harness-exception", "detail": obs.describe()}]
        d, o1, o2 = obs
        return scan_props.c07(d, o1.fail_tuples(), o2.fail_tuples(), o1.err, o1.code)

    def digest(self, obs, rv):
        if isinstance(obs, Raised):
            return "raised:" + obs.root_type + "@" + obs.site
        d, o1, o2 = obs
        with NoTracing():
            return f"{o1.code}:" + ",".join(sorted({f.rule_id for f in o1.fails}))


HARNESSES = {"c07": C07Harness}


class C07OrderKernel:
    """PluginScanFailure.__lt__ + sorted(): three failures with unbounded symbolic line/column
    and rule ids from a 3-element set are ordered by (line, column, rule id)."""

    IDS = ["MD001", "MD010", "PML100"]

    def __init__(self, params):
        self.p = params

    def variables(self):
        out = []
        for i in range(3):
            out += [(f"l{i}", "int"), (f"c{i}", "int"), (f"r{i}", "int")]
        return out

    def body(self, v):
        from pymarkdown.plugin_manager.plugin_scan_failure import PluginScanFailure

        fs = []
        for i in range(3):
            r = v[f"r{i}"]
            if not (0 <= r <= 2):
                return SKIP
            rid = self.IDS[0] if r == 0 else (self.IDS[1] if r == 1 else self.IDS[2])
            fs.append(PluginScanFailure("f", v[f"l{i}"], v[f"c{i}"], rid, "n", "d", None))
        return (fs, sorted(fs))

    def judge(self, obs, v):
        if isinstance(obs, Raised):
            return [{"kind": "harness-exception", "detail": obs.describe()}]
        fs, ordered = obs
        out = []
        for a, b in zip(ordered, ordered[1:]):
            ka = (a.line_number, a.column_number, a.rule_id)
            kb = (b.line_number, b.column_number, b.rule_id)
            if ka > kb:
                out.append({"kind": "sort-order", "detail": {"a": list(ka), "b": list(kb)}})
        for a in fs:
            if a < a:
                out.append({"kind": "not-irreflexive", "detail": {}})
        return out

    def digest(self, obs, rv):
        if isinstance(obs, Raised):
            return "raised"
        fs, ordered = obs
        with NoTracing():
            return ",".join(str(fs.index(o)) for o in ordered)


HARNESSES["c07order"] = C07OrderKernel


def _bag(fails):
    """sorted multiset of (line, col, rule id, extra)"""
    return sorted((f.line_number, f.column_number, f.rule_id, f.extra_error_information or "") for f in fails)


class C12Harness(DocMixin):
    """Rule independence.  params: skeleton, holes, minus (bool: also default-minus-each).
    One path scans the same symbolic document with: all rules, the default set, every rule
    alone (and default minus every default rule), each through its own real PluginManager +
    FileScanHelper built once per worker."""

    _scanners = {}

    def __init__(self, params):
        self._init_doc(params)
        app.the_vfs()
        self.table = env.rule_table()
        self.ids = [r[0] for r in self.table if r[0] != "md999"]
        self.default_ids = [r[0] for r in self.table if r[2] and r[0] != "md999"]
        self.minus = bool(params.get("minus"))
        with NoTracing():
            self._get("all")
            self._get("default")
            for rid in self.ids:
                self._get("only:" + rid)
            if self.minus:
                for rid in self.default_ids:
                    self._get("minus:" + rid)

    def _get(self, sel):
        sc = C12Harness._scanners.get(sel)
        if sc is None:
            if sel == "all":
                sc = env.Scanner(enable=",".join(self.ids))
            elif sel == "default":
                sc = env.Scanner()
            elif sel.startswith("only:"):
                sc = env.Scanner(*env.only_rule(sel[5:]))
            else:
                sc = env.Scanner(disable=sel[6:])
            C12Harness._scanners[sel] = sc
        return sc

    def scan(self, sel, d):
        V = app.the_vfs()
        V.reset()
        V.put(F, d)
        sc = self._get(sel)
        try:
            sc.run([F])
        except SystemExit:
            return None
        if sc.errors:
            return None
        return _bag(sc.pres.fails)

    def body(self, v):
        d = self.doc(v)
        if d is None:
            return SKIP
        res = {"all": self.scan("all", d), "default": self.scan("default", d)}
        for rid in self.ids:
            res["only:" + rid] = self.scan("only:" + rid, d)
        if self.minus:
            for rid in self.default_ids:
                res["minus:" + rid] = self.scan("minus:" + rid, d)
        return (d, res)

    def judge(self, obs, v):
        if isinstance(obs, Raised):
            return [{"kind": "harness-exception", "detail": obs.describe()}]
        d, res = obs
        return scan_props.c12(res, self.ids, self.default_ids)

    def digest(self, obs, rv):
        if isinstance(obs, Raised):
            return "raised:" + obs.root_type + "@" + obs.site
        d, res = obs
        with NoTracing():
            a = res.get("all")
            return "err" if a is None else ",".join(sorted({x[2] for x in a}))


HARNESSES["c12"] = C12Harness


import os as _os
import sys as _sys

_PLUG = _os.path.join(env.VERIF, "plugins")
RECORDER = _os.path.join(_PLUG, "recorder_rule.py")


def recorder():
    if _PLUG not in _sys.path:
        _sys.path.insert(0, _PLUG)
    import recorder_rule

    return recorder_rule.RecorderRule


_PTOK = None


def direct_tokens(d):
    """token stream obtained directly from the parser, pragma token removed"""
    global _PTOK
    if _PTOK is None:
        with NoTracing():
            _PTOK = env.make_tokenizer()
    try:
        toks = _PTOK.transform(d, show_debug=False, do_add_end_of_stream_token=True)
    except Exception:  # noqa
        return None
    if toks and toks[-1].is_pragma:
        toks = toks[:-1]
    return toks


class C14Harness(DocMixin):
    """params: skeleton, holes, second (optional second file text), disabled (bool)"""

    def __init__(self, params):
        self._init_doc(params)
        self.second = params.get("second")
        self.disabled = bool(params.get("disabled"))
        self.argv = ["--add-plugin", RECORDER] + (["-d", "vpr001"] if self.disabled else []) + ["scan", F] + (["/vfs/g.md"] if self.second is not None else [])
        app.the_vfs()
        self.R = recorder()

    def body(self, v):
        d = self.doc(v)
        if d is None:
            return SKIP
        self.R.reset()
        files = [(F, d)] + ([("/vfs/g.md", self.second)] if self.second is not None else [])
        o = app.run_main(self.argv, files)
        log = list(self.R.LOG)
        docs_in_order = [d] + ([self.second] if self.second is not None else [])
        toks = [direct_tokens(x) for x in docs_in_order]
        return (o, log, docs_in_order, toks)

    def judge(self, obs, v):
        if isinstance(obs, Raised):
            return [{"kind": "harness-exception", "detail": obs.describe()}]
        o, log, ds, toks = obs
        if scan_props.mentions(o.err, "Error"):
            return []
        return scan_props.c14(log, ds, toks, enabled=not self.disabled)

    def digest(self, obs, rv):
        if isinstance(obs, Raised):
            return "raised:" + obs.root_type + "@" + obs.site
        o, log, ds, toks = obs
        with NoTracing():
            return "".join(e[0][0] for e in log)[:120]


HARNESSES["c14"] = C14Harness
