"""Spec of C03 (CommonMark conformance against the vendored reference)."""
import json

from checks.parse_spec import _CUTS
from engine import docs
from engine.spec import Spec


class C03(Spec):
    prop = "C03"
    sym_module = "checks.html_sym"
    real_module = "checks.html_real"
    cuts = _CUTS
    stubs = ["reference implementation: markdown-it-py 4.0.0 'commonmark' preset + mdurl 0.1.2 (vendored, pure Python), executed symbolically on the same cells"]
    rule_text = ("one symbolic path = one joint behaviour of pymarkdown (parse + TransformToGfm) and markdown-it-py on the same symbolic document; "
                 "assertion: HTML equal after removing newlines between adjacent tags and one trailing newline, as a symbolic string equality; "
                 "distinct = distinct tag sequences of the reference HTML")
    assumptions = [
        "cells range over U+0009, U+000A, U+0020-U+007E, U+00E9, U+03B1, U+4E2D (one z3 disjunction, not enumerated by the harness)",
        "excluded as oracle-side deviations (triaged against the specification text): U+000B, U+000C, U+001C-U+001F, U+0085, U+00A0 and other Unicode spaces (markdown-it trims with str.strip())",
        "excluded: pymarkdown's reserved in-band characters U+0001-U+0008, U+00FE, U+8268, U+8269 (their loss is recorded once, under C02)",
        "excluded as documented 0.29/0.31 differences: symbols such as U+1F600 next to emphasis delimiters (0.31 counts S* categories as punctuation), a closing code fence followed by a TAB (0.29 allows only spaces)",
        "the reference is given the document with a final line ending appended when it has none (a final line ending is optional, spec 2.1); a space directly before a line ending inside text is treated as insignificant on both sides (the project's own expected output for GFM example 670 keeps it)",
        "all extensions off",
    ]
    outside = [
        "non-ASCII punctuation/symbol classes in flanking rules, HTML-block start tags and entity names that differ between CommonMark 0.29 and 0.31",
        "documents longer than the pool's / more than the stated number of free cells",
    ]
    per_path_timeout = 30.0

    def job(self, params, budget=300.0):
        p = dict(params)
        p["prop"] = self.prop
        return {"harness": "html", "params": p, "per_path_timeout": self.per_path_timeout, "budget_s": budget}

    def shards(self, tier):
        out = []
        if tier == "quick":
            for s in docs.g1_shards(2):
                out.append(self.job(s))
            for s in docs.g2_shards(docs.load_pool("mini"), replace=True):
                out.append(self.job(s))
            for name, n, split in (("autolink", 5, 2), ("emphasis", 4, 1)):
                for s in docs.sigma_shards(name, n, split):
                    out.append(self.job(s, budget=200.0))
        else:
            for name, n, split in (("autolink", 6, 3), ("emphasis", 6, 3), ("links", 5, 2), ("containers", 5, 2)):
                for s in docs.sigma_shards(name, n, split):
                    out.append(self.job(s, budget=900.0))
            for s in docs.g1_shards(2):
                out.append(self.job(s))
            for i, s in enumerate(docs.g2_shards(docs.load_pool("thorough"), replace=True)):
                if i % 3 == 0:
                    out.append(self.job(s))
        return out

    def bounds_text(self, tier):
        if tier == "quick":
            return {"G1": "all documents of length 0..2 over the C03 cell domain", "G2": "mini pool, one symbolic cell replacing each position"}
        return {"G1": "all documents of length 0..2 over the C03 cell domain", "G2": "full pool, one cell replacing every third position", "G1-Sigma": "autolink alphabet length 6, emphasis 6, links 5, containers 5"}

    def readable(self, case):
        from checks.html_real import doc_of

        return json.dumps({"doc": doc_of(case)}, ensure_ascii=True)
