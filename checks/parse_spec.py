"""Specs of the parser family: C01, C02, C04, C05 (DESIGN §5)."""
import json

from engine import docs
from engine.spec import Spec

_CUTS = [
    "logging statements POGGER/LOGGER.<level>(...) removed after a syntactic purity screen",
    "ParserHelper.make_value_visible/make_whitespace_visible (log formatting) stubbed to ''",
]
_PAIRS = [
    ("- ab\n  - b\n", 2), ("> ab\nb\n", 2), ("1. a\n\n   b\n", 0), ("ab\n===\n", 0), ("```x\nc\n```\n", 0),
    ("[a]: /u\n\n[a]\n", 3), ("[b](/u \"t\")\n", 3), ("*ab* __b__\n", 1), ("`ab` \\*\n", 1), ("ab  \nb\n", 1),
    ("> - ab\n>   b\n", 0), ("- > ab\n  > b\n", 2), ("a\n\tb\n", 2), ("<div>\nx\n</div>\n", 0),
]


class _ParseSpec(Spec):
    sym_module = "checks.parse_sym"
    real_module = "checks.parse_real"
    cuts = _CUTS
    stubs = ["none (pure in-memory parse; extension manager and tokenizer built for real, all extensions off)"]
    assumptions = [
        "cells range over every Unicode scalar value except NUL (replaced by U+FFFD per spec) and CR (line-ending translation is C16's)",
        "a path is decided by z3 inside CrossHair's models of str/list/int; CrossHair 0.0.110 and z3 are trusted",
        "every candidate is replayed on the unmodified code before it is reported",
    ]
    per_path_timeout = 12.0

    def job(self, params, budget=150.0):
        p = dict(params)
        p["prop"] = self.prop
        return {"harness": "parse", "params": p, "per_path_timeout": self.per_path_timeout, "budget_s": budget}

    def shards(self, tier):
        pool = docs.load_pool(tier)
        out = []
        if tier == "quick":
            for s in docs.g1_shards(2):
                out.append(self.job(s))
            mini = set(docs.load_pool("mini"))
            for i, s in enumerate(docs.g2_shards(pool, replace=True)):
                # every position of the mini skeletons, every second position of the others
                heavy = s["base"].count("\n") >= 2 and ("`\n" in s["base"] or "(\n" in s["base"] or "a\nb" in s["base"] or "```x \\" in s["base"])
                short = len(s["base"]) <= 16
                if s["base"] in mini or (not heavy and (short or i % 2 == 0)) or (heavy and i % 4 == 0):
                    out.append(self.job(s, budget=100.0 if heavy else 150.0))
        elif self.prop in ("C01", "C02"):
            for s in docs.g1_shards(3):
                out.append(self.job(s))
            core = set(docs.load_pool("core"))
            for i, s in enumerate(docs.g2_shards(pool, replace=True)):
                if s["base"] in core or i % 2 == 0:
                    out.append(self.job(s))
            for s in docs.g2_pairs(_PAIRS[:4]):
                out.append(self.job(s, budget=600.0))
        else:
            for s in docs.g1_shards(3):
                out.append(self.job(s))
            for s in docs.g2_shards(docs.load_pool("core"), replace=True):
                out.append(self.job(s))
            for i, s in enumerate(docs.g2_shards(docs.load_pool("core"), replace=False, insert=True)):
                if i % 2 == 0:
                    out.append(self.job(s))
        # G1-Sigma: all documents of length n over small Markdown-significant alphabets
        if tier == "quick":
            for name, n, split in (("emphasis", 6, 2), ("links", 5, 1), ("containers", 5, 1)):
                for s in docs.sigma_shards(name, n, split):
                    out.append(self.job(s, budget=200.0))
        else:
            for name, n, split in (("emphasis", 7, 4), ("links", 6, 3), ("containers", 6, 3), ("leaf", 5, 2)):
                for s in docs.sigma_shards(name, n, split):
                    out.append(self.job(s, budget=900.0))
        if self.prop == "C04":
            # crossing emphasis spans: an opened span followed by four free cells over the emphasis alphabet
            for prefix in (("*a ", "_a ", "**a") if tier == "quick" else ("*a ", "_a ", "**a", "*a_", "a *", "__a")):
                out.append(self.job({"skeleton": prefix + "????", "holes": [3, 4, 5, 6], "alphabet": "emphasis"}, budget=400.0 if tier == "quick" else 900.0))
        for extra in self.extra_docs(tier):
            out.append(self.job({"skeleton": extra, "holes": []}))
        for sk, stride in self.extra_skeletons(tier):
            for s in docs.g2_shards([sk], replace=True):
                if s["holes"][0] % stride == 0:
                    out.append(self.job(s, budget=100.0))
        return out

    def extra_skeletons(self, tier):
        return []

    def extra_docs(self, tier):
        return []

    def bounds_text(self, tier):
        if tier == "quick":
            return {"G1": "all documents of length 0..2 (every cell any Unicode scalar value but NUL/CR)",
                    "G2": "core skeleton pool (skeletons.txt), one symbolic cell replacing each position of the 9 mini skeletons and every position of the other skeletons up to 16 characters, every second position of the longer ones, every fourth of the multi-line-inline ones",
                    "G1-Sigma": "all documents of length 6 over {*,_,a,space,`}, of length 5 over {[,],(,),a,!} and over {>,-,space,newline,a,1,.}",
                    "per_path_timeout_s": self.per_path_timeout}
        if self.prop in ("C04", "C05"):
            return {"G1": "all documents of length 0..3", "G2": "core skeleton pool, one symbolic cell replacing each position and one inserted at every second position",
                    "G1-Sigma": "all documents of length 7 over {*,_,a,space,`}, length 6 over {[,],(,),a,!} and {>,-,space,newline,a,1,.}, length 5 over {#,=,`,~,newline,space,a,-}", "per_path_timeout_s": self.per_path_timeout}
        return {"G1": "all documents of length 0..3",
                "G1-Sigma": "all documents of length 7 over {*,_,a,space,`}, length 6 over {[,],(,),a,!} and {>,-,space,newline,a,1,.}, length 5 over {#,=,`,~,newline,space,a,-}",
                "G2": "core pool one symbolic cell replacing each position, rest of the full pool every second position; two adjacent symbolic cells at 4 listed (skeleton, position) pairs",
                "per_path_timeout_s": self.per_path_timeout}

    outside = [
        "documents longer than the pool's / more than the stated number of free cells",
        "documents containing CR or NUL",
    ]

    def readable(self, case):
        from checks.parse_real import doc_of

        return json.dumps({"doc": doc_of(case)}, ensure_ascii=True)

    def signature(self, case, rr):
        obs = rr.get("observed") or {}
        e = obs.get("exception") or obs.get("regen_exception")
        if e:
            return f"{case['kind']}:{e['root']}@{e['site']}"
        if rr.get("timeout"):
            return "hang"
        return case["kind"]


class C01(_ParseSpec):
    prop = "C01"
    rule_text = ("one symbolic path = one behaviour of TokenizedMarkdown.transform over all documents that take it; "
                 "distinct = distinct token-name sequences / exception sites; assertion: no exception leaves transform, "
                 "block-pass iterations <= 2(lines+1)^2+4, no path exceeds the wall alarm")
    outside = _ParseSpec.outside + ["the asymptotic ('small polynomial') clause beyond the quadratic bound on block-pass iterations of the explored documents"]

    def extra_docs(self, tier):
        return ["  - a\n- 1)"]

    def is_violation(self, case, rr):
        if rr.get("replay_error"):
            return None
        if rr.get("timeout"):
            return True  # non-termination within the 20 s cap is the violation
        return rr.get("violates")


class C02(_ParseSpec):
    prop = "C02"
    rule_text = ("one symbolic path = one behaviour of parse+regenerate; assertion TransformToMarkdown().transform(tokens) == source "
                 "as one symbolic string equality decided by z3; distinct = distinct token-name sequences")


class C04(_ParseSpec):
    prop = "C04"
    rule_text = ("token stream of every path replayed through the independent stack automaton engine/oracles/rstack.py; "
                 "distinct = distinct token-name sequences")


class C05(_ParseSpec):
    prop = "C05"
    rule_text = ("every positioned token of every path checked by engine/oracles/rpos.py against the symbolic source "
                 "(range, order, opener character); distinct = distinct token-name sequences")
    outside = _ParseSpec.outside + ["columns on lines that contain a TAB before the column", "positions after pragma lines (C11)"]

    def extra_skeletons(self, tier):
        # multi-line inline elements inside a setext heading (no owning paragraph: the column after the element is
        # rebuilt from the whitespace that follows the last newline inside it), one free cell at every third position
        return [("a [b](/u\n   \"t\nu\") `c` *d*\n===\n", 3), ("a `b\n  c` [d](/u) e\n---\n", 3)]
