"""Deviations of the *reference* implementation (markdown-it-py) from the CommonMark
specification, triaged against the specification text.  Documents in these classes are outside
C03's comparison (they are never reported and never listed as findings).  Pure functions that
also execute on symbolic strings."""


def _lines(d):
    out = []
    start = 0
    n = len(d)
    i = 0
    while i < n:
        if d[i] == "\n":
            out.append(d[start:i])
            start = i + 1
        i += 1
    out.append(d[start:])
    return out


def _lstrip3(line):
    i = 0
    while i < len(line) and i < 3 and line[i] == " ":
        i += 1
    return line[i:]


def _looks_like_list_item(line):
    s = _lstrip3(line)
    if len(s) == 0:
        return False
    c = s[0]
    if c == "-" or c == "+" or c == "*":
        return len(s) == 1 or s[1] == " " or s[1] == "\t"
    i = 0
    while i < len(s) and i < 9 and "0" <= s[i] <= "9":
        i += 1
    if i > 0 and i < len(s) and (s[i] == "." or s[i] == ")"):
        return i + 1 == len(s) or s[i + 1] == " " or s[i + 1] == "\t"
    return False


def lazy_list_like_after_quote(d):
    """a line that looks like a list item directly follows a block-quote line without its own
    '>': by the specification an empty list item / an ordered item not starting at 1 cannot
    interrupt the quoted paragraph and the line is a lazy continuation; markdown-it starts a
    list instead."""
    ls = _lines(d)
    for i in range(1, len(ls)):
        prev = _lstrip3(ls[i - 1])
        if len(prev) > 0 and prev[0] == ">":
            cur = _lstrip3(ls[i])
            if not (len(cur) > 0 and cur[0] == ">") and _looks_like_list_item(ls[i]):
                return True
    return False


def dangling_inline_link_open(d):
    """'](' that is never closed: the specification falls back to a shortcut reference link
    for '[a]'; markdown-it leaves the text literal."""
    i = d.find("](")
    return i >= 0 and ")" not in d[i:]


def reference_deviates(d):
    return lazy_list_like_after_quote(d) or dangling_inline_link_open(d)
