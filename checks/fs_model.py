"""Pure model shared by the symbolic harness and the concrete replay of C19: the FS-tree
association list, glob segment matching, and the reference model R-fs (written from
newdocs/src/user-guide.md, Basic/Advanced Scanning)."""

# ------------------------------------------------------------------ FS-tree stub
TREE = []  # association list [(path, 'f'|'d')], never a dict (hashing realises symbolic keys)


def kind_of(p):
    for n, k in TREE:
        if n == p:
            return k
    return None


def seg_match(pat, name):
    """fnmatch for one path segment: `*`, `?` and `[seq]` / `[!seq]` classes with ranges (an
    unterminated '[' is a literal character), plus glob's rule that a leading dot must be
    matched explicitly."""
    if len(name) > 0 and name[0] == "." and not (len(pat) > 0 and pat[0] == "."):
        return False
    return _m(pat, 0, name, 0)


def _class_end(pat, i):
    """index of the ']' closing the class that starts at pat[i] == '[', or -1"""
    j = i + 1
    if j < len(pat) and pat[j] == "!":
        j += 1
    if j < len(pat) and pat[j] == "]":
        j += 1
    while j < len(pat) and not (pat[j] == "]"):
        j += 1
    return j if j < len(pat) else -1


def _in_class(body, ch):
    neg = len(body) > 0 and body[0] == "!"
    if neg:
        body = body[1:]
    hit = False
    k = 0
    while k < len(body):
        if k + 2 < len(body) and body[k + 1] == "-":
            if body[k] <= ch <= body[k + 2]:
                hit = True
            k += 3
        else:
            if body[k] == ch:
                hit = True
            k += 1
    return hit != neg


def _m(pat, i, name, j):
    while i < len(pat):
        c = pat[i]
        if c == "*":
            k = j
            while k <= len(name):
                if _m(pat, i + 1, name, k):
                    return True
                k += 1
            return False
        if j >= len(name):
            return False
        if c == "[":
            e = _class_end(pat, i)
            if e >= 0:
                if not _in_class(pat[i + 1:e], name[j]):
                    return False
                i = e + 1
                j += 1
                continue
        if not (c == "?") and not (c == name[j]):
            return False
        i += 1
        j += 1
    return j == len(name)


def children(top):
    """(dirs, files) names directly inside directory `top`"""
    dirs, files = [], []
    prefix = top + "/"
    for n, k in TREE:
        if len(n) > len(prefix) and n[: len(prefix)] == prefix:
            rest = n[len(prefix):]
            if "/" not in rest:
                (dirs if k == "d" else files).append(rest)
    return dirs, files


# ------------------------------------------------------------------ reference model R-fs
def eligible(path, exts):
    if kind_of(path) != "f":
        return False
    for e in exts:
        if len(path) >= len(e) and path[len(path) - len(e):] == e:
            return True
    return False


def r_fs(args, recurse, exts):
    """(sorted unique list, error flag) per the user guide / property text"""
    chosen = []

    def add(p):
        for q in chosen:
            if q == p:
                return
        chosen.append(p)

    def add_dir(d):
        dirs, files = children(d)
        for f in files:
            if eligible(d + "/" + f, exts):
                add(d + "/" + f)
        if recurse:
            for s in dirs:
                add_dir(d + "/" + s)

    for a in args:
        if "*" in a or "?" in a:
            idx = a.rfind("/")
            base, last = a[:idx], a[idx + 1:]
            matches = []
            if kind_of(base) == "d":
                dirs, files = children(base)
                matches = [base + "/" + n for n in dirs + files if seg_match(last, n)]
            if not matches:
                return None, True
            for m in matches:
                if kind_of(m) == "d":
                    add_dir(m)
                elif eligible(m, exts):
                    add(m)
        else:
            k = kind_of(a)
            if k is None:
                return None, True
            if k == "d":
                add_dir(a)
            elif eligible(a, exts):
                add(a)
            else:
                return None, True
    return sorted(chosen), False


