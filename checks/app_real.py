"""Concrete runs of the unmodified application against real files (replay side)."""
import io
import os
import shutil
import sys
import tempfile


class RealObs(dict):
    pass


def _collecting_presentation():
    from pymarkdown.general.main_presentation import MainPresentation

    class P(MainPresentation):
        def __init__(self):
            self.out, self.err, self.fails, self.pragma, self.fixed = [], [], [], [], []

        def print_system_output(self, s):
            self.out.append(s)

        def print_system_error(self, s):
            self.err.append(s)

        def print_scan_failure(self, f):
            self.fails.append(f)

        def print_pragma_failure(self, scan_file, line_number, pragma_error):
            self.pragma.append((scan_file, line_number, pragma_error))

        def print_fix_message(self, file_fixed):
            self.fixed.append(file_fixed)

    return P()


class Sandbox:
    """A real temporary directory standing for /vfs, and a private TMPDIR standing for /vtmp."""

    def __init__(self):
        self.root = tempfile.mkdtemp(prefix="vp-replay-")
        self.work = os.path.join(self.root, "vfs")
        self.tmp = os.path.join(self.root, "tmp")
        os.mkdir(self.work)
        os.mkdir(self.tmp)
        self._old_tmp = tempfile.tempdir
        tempfile.tempdir = self.tmp

    def path(self, vpath):
        assert vpath.startswith("/vfs/")
        return os.path.join(self.work, vpath[len("/vfs/"):])

    def vpath(self, real):
        if real.startswith(self.work):
            return "/vfs" + real[len(self.work):]
        return real

    def write(self, vpath, text):
        p = self.path(vpath)
        os.makedirs(os.path.dirname(p), exist_ok=True)
        with open(p, "w", encoding="utf-8", newline="") as f:
            f.write(text)

    def write_bytes(self, vpath, data):
        p = self.path(vpath)
        os.makedirs(os.path.dirname(p), exist_ok=True)
        with open(p, "wb") as f:
            f.write(data)

    def read(self, vpath):
        with open(self.path(vpath), encoding="utf-8", newline="") as f:
            return f.read()

    def listing(self):
        out = []
        for r, _d, fs in os.walk(self.work):
            for f in fs:
                out.append(self.vpath(os.path.join(r, f)))
        return sorted(out)

    def temp_leftovers(self):
        return sorted(os.listdir(self.tmp))

    def close(self):
        tempfile.tempdir = self._old_tmp
        shutil.rmtree(self.root, ignore_errors=True)

    def __enter__(self):
        return self

    def __exit__(self, *a):
        self.close()


def real_main(sb, argv, stdin=None):
    """PyMarkdownLint().main(argv) with /vfs/... arguments mapped into the sandbox."""
    from pymarkdown.main import PyMarkdownLint

    pres = _collecting_presentation()
    argv = [sb.path(a) if isinstance(a, str) and a.startswith("/vfs/") else a for a in argv]
    old_stdin = sys.stdin
    if stdin is not None:
        sys.stdin = io.StringIO(stdin.replace("\r\n", "\n").replace("\r", "\n"))
    code = None
    try:
        PyMarkdownLint(presentation=pres, inherit_logging=True).main(argv)
    except SystemExit as e:
        code = e.code
    finally:
        sys.stdin = old_stdin
    o = RealObs()
    o["code"] = code
    o["out"] = [sb.vpath_in(s) for s in pres.out] if hasattr(sb, "vpath_in") else list(pres.out)
    o["err"] = list(pres.err)
    o["fails"] = [(sb.vpath(f.scan_file), f.line_number, f.column_number, f.rule_id, f.rule_name, f.extra_error_information) for f in pres.fails]
    o["pragma"] = [(sb.vpath(a), b, c) for a, b, c in pres.pragma]
    o["fixed"] = [sb.vpath(f) for f in pres.fixed]
    return o


_IDS = None


def all_rule_ids():
    global _IDS
    if _IDS is None:
        import pymarkdown.main
        from application_properties import ApplicationProperties
        from pymarkdown.plugin_manager.plugin_manager import PluginManager

        pm = PluginManager(_collecting_presentation())
        pm.initialize(os.path.join(os.path.dirname(pymarkdown.main.__file__), "plugins"), [], "", "", ApplicationProperties(), False, False)
        _IDS = sorted(p.plugin_id.lower() for p in pm._PluginManager__registered_plugins if p.plugin_id.lower() != "md999")
    return list(_IDS)


def rule_args(selection):
    ids = all_rule_ids()
    if selection == "default":
        return []
    if selection == "all":
        return ["-e", ",".join(ids)]
    kind, rid = selection.split(":", 1)
    if kind == "only":
        return ["-e", rid, "-d", ",".join(i for i in ids if i != rid)]
    if kind == "minus":
        return ["-d", rid]
    if kind == "set":
        want = rid.split(",")
        return ["-e", rid, "-d", ",".join(i for i in ids if i not in want)]
    raise ValueError(selection)
