"""C06: rule verdicts against the documented condition, with symbolic configuration."""
import os
import sys

from engine import app, docs, env
from engine.driver import SKIP, Raised
from engine.env import NoTracing, build_cells, sym_doc
from engine.oracles import rrule

sys.path.insert(0, os.path.join(env.VERIF, "vendor"))
from markdown_it import MarkdownIt  # noqa: E402

from checks.html_sym import in_domain, norm  # noqa: E402
from pymarkdown.transform_gfm.transform_to_gfm import TransformToGfm  # noqa: E402

_MD = MarkdownIt("commonmark")
F = "/vfs/f.md"


class RuleHarness:
    """params: rule (md009|md010|md012|md013|md047), skeleton, holes.  Configuration values
    of the rule are symbolic (unbounded Int / Bool)."""

    def __init__(self, params):
        self.p = params
        self.rule = params["rule"]
        self.skeleton = params.get("skeleton", "")
        self.holes = list(params.get("holes", []))
        self.template = params.get("template")
        app.the_vfs()
        self.rid = "md013" if self.rule == "md013x" else self.rule
        self.en, self.dis = env.only_rule(self.rid)
        with NoTracing():
            self.tok = env.make_tokenizer()

    def variables(self):
        v = [(f"c{i}", "int") for i in range(len(self.holes))]
        if self.template:
            v = [(f"n{i}", "int") for i, _x in enumerate(x for x in self.template if not isinstance(x, str))]
        if self.rule == "md009":
            v += [("br", "int"), ("strict", "bool")]
        elif self.rule == "md012":
            v += [("maximum", "int")]
        elif self.rule == "md013":
            v += [("limit", "int"), ("strict", "bool")]
        elif self.rule == "md013x":
            v += [("limit", "int"), ("hlimit", "int"), ("climit", "int"), ("code_blocks", "bool"), ("headings", "bool")]
        elif self.rule in ("md025", "md041"):
            v += [("level", "int")]
        return v

    def config(self, v):
        if self.rule == "md009":
            if not (0 <= v["br"] <= 6):
                return None
            return {"br_spaces": v["br"], "strict": True if v["strict"] else False}
        if self.rule == "md012":
            if not (0 <= v["maximum"] <= 6):
                return None
            return {"maximum": v["maximum"]}
        if self.rule == "md013":
            if not (1 <= v["limit"]):
                return None
            n = v["limit"]
            return {"line_length": n, "heading_line_length": n, "code_block_line_length": n, "strict": True if v["strict"] else False}
        if self.rule in ("md025", "md041"):
            if not (1 <= v["level"] <= 6):
                return None
            return {"level": v["level"]}
        if self.rule == "md013x":
            for k in ("limit", "hlimit", "climit"):
                if not (1 <= v[k] <= 12):
                    return None
            return {"line_length": v["limit"], "heading_line_length": v["hlimit"], "code_block_line_length": v["climit"],
                    "code_blocks": True if v["code_blocks"] else False, "headings": True if v["headings"] else False}
        return {}

    def body(self, v):
        cells = [v[f"c{i}"] for i in range(len(self.holes))]
        for c in cells:
            if not in_domain(c):
                return SKIP
        for i, k in enumerate(self.p.get("classes") or []):
            if not docs.in_class(cells[i], k):
                return SKIP
        cfg = self.config(v)
        if cfg is None:
            return SKIP
        if self.template:
            from checks.scan_sym import DocMixin

            d = DocMixin.doc_from_template(self, v)
            if d is None:
                return SKIP
        else:
            d = sym_doc(build_cells(self.skeleton, self.holes, cells))
        # C03 precondition: the parser's block structure is the reference's
        try:
            g = TransformToGfm().transform(self.tok.transform(d, show_debug=False))
        except Exception:  # noqa
            return SKIP
        if not (norm(g) == norm(_MD.render(d))):
            return SKIP
        mtoks = _MD.parse(d)
        code, has_container, has_html = rrule.structure(mtoks)
        sc = env.Scanner(enable=self.en, disable=self.dis, config={"plugins": {self.rid: cfg}}, tokenizer=self.tok)
        V = app.the_vfs()
        V.reset()
        V.put(F, d)
        try:
            sc.run([F])
        except SystemExit:
            return SKIP
        if sc.errors:
            return SKIP
        got = sorted({f.line_number for f in sc.pres.fails if f.rule_id.lower() == self.rid})
        lines = rrule.split_lines(d)
        if self.rule == "md009":
            want = rrule.md009(lines, code, cfg["br_spaces"], cfg["strict"])
        elif self.rule == "md010":
            want = rrule.md010(lines)
        elif self.rule == "md012":
            if has_container or has_html:
                return SKIP
            want = rrule.md012(lines, code, cfg["maximum"])
        elif self.rule == "md013":
            want = rrule.md013(lines, cfg["line_length"], cfg["strict"])
        elif self.rule == "md013x":
            if has_container or has_html:
                return SKIP
            want = rrule.md013x(lines, code, rrule.heading_lines(mtoks), (cfg["line_length"], cfg["heading_line_length"], cfg["code_block_line_length"]), cfg["code_blocks"], cfg["headings"], False)
        elif self.rule in ("md001", "md018", "md019", "md023", "md040", "md025", "md041"):
            if has_container or (has_html and self.rule == "md041"):
                return SKIP
            if self.rule == "md001":
                want = rrule.md001(mtoks)
            elif self.rule == "md018":
                want = rrule.md018(lines, mtoks)
                if want is None:
                    return SKIP
            elif self.rule == "md019":
                want = rrule.md019(lines, mtoks)
                if want is None:
                    return SKIP
            elif self.rule == "md023":
                want = rrule.md023(lines, mtoks)
            elif self.rule == "md040":
                want = rrule.md040(mtoks)
            elif self.rule == "md025":
                want = rrule.md025(mtoks, cfg["level"])
            else:
                want = rrule.md041(lines, mtoks, cfg["level"])
        elif self.rule == "md047":
            if len(d) == 0:
                return SKIP
            want = rrule.md047(lines)
        else:
            raise ValueError(self.rule)
        return (d, cfg, got, want)

    def judge(self, obs, v):
        if isinstance(obs, Raised):
            raise env.CrosshairUnsupported("exception in harness: " + obs.root_type + "@" + obs.site)
        d, cfg, got, want = obs
        if list(got) != list(want):
            return [{"kind": "verdict-differs", "detail": {"rule": self.rule, "config": cfg, "reported_lines": list(got), "documented_lines": list(want)}}]
        return []

    def digest(self, obs, rv):
        if isinstance(obs, Raised):
            return "raised"
        with NoTracing():
            return f"{self.rule}:{env.deep_realize(obs[2])}"


HARNESSES = {"rule": RuleHarness}
