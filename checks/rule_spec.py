"""Spec of C06."""
import json

from checks.parse_spec import _CUTS
from engine import docs
from engine.spec import Spec

RULES = ["md009", "md010", "md012", "md013", "md047"]
# heading / fence rules with an oracle on the reference parser's block structure
RULES2 = ["md001", "md018", "md019", "md023", "md025", "md040", "md041"]
_POOL2 = ["# a\n### b\n #c\n##  d\n", "#a b\n\n```\nc\n``` \n", "# a\n\n# b\n\n  ## c\n"]
_POOL = ["a \n\n\n\nb  \n", "# a  \n\tb\n", "```\nc  \n\n\n```\nd", "- a  \n\n\n  b \n", "    c  \n\na\tb\n"]


class C06(Spec):
    prop = "C06"
    sym_module = "checks.rule_sym"
    real_module = "checks.rule_real"
    cuts = _CUTS
    stubs = ["reference parser markdown-it-py (vendored) supplies the block structure (which lines are code, whether containers/HTML blocks occur)", "VFS; presentation stub; the rule's PluginManager is built per path with the symbolic configuration"]
    rule_text = ("per covered rule (MD009, MD010, MD012, MD013, MD047; MD001, MD018, MD019, MD023, MD025, MD040, MD041 with symbolic `level`) enabled alone: the document cells AND the rule's configuration (br_spaces 0..6, strict Bool; maximum 0..6; line_length any Int >= 1 applied to all three limits, strict Bool) are z3 variables; "
                 "assertion: set of reported lines == lines computed by the documented condition (engine/oracles/rrule.py) on the source and the reference parser's block map; paths on which pymarkdown's HTML differs from the reference are skipped (C03 precondition); "
                 "distinct = distinct (rule, reported line sets)")
    assumptions = ["cells range over the C03 domain (U+0009, U+000A, U+0020-U+007E, U+00E9, U+03B1, U+4E2D)", "MD012 is compared only on documents without containers and HTML blocks; MD047 only on non-empty documents; MD013 'stern' mode is not covered"]
    outside = ["rules whose documentation is not a crisp text-level condition, and the crisp rules not yet given an oracle (MD003, MD004, MD022, MD024, MD026, MD031, MD032, MD035, MD042, MD045, MD046, MD048)", "the heading/fence oracles are compared on documents without containers; MD019 on headings without TAB and with text",
               "documents beyond the stated skeletons / cells"]

    def job(self, params, budget=240.0):
        p = dict(params)
        p["prop"] = self.prop
        return {"harness": "rule", "params": p, "per_path_timeout": 30.0, "budget_s": budget}

    def shards(self, tier):
        out = []
        for r in RULES:
            base = docs.g1_shards(1) if tier == "quick" else docs.g1_shards(2)
            pool = _POOL[:2] if tier == "quick" else _POOL
            g2 = docs.g2_shards(pool, replace=True)
            g2 = g2[::3] if tier == "quick" else g2[::2]
            for s in base + g2:
                out.append(self.job(dict(s, rule=r), budget=240.0 if tier == "quick" else 600.0))
        for r in RULES2:
            tpl = {"md001": "heading-levels", "md025": "heading-levels", "md041": "heading-levels", "md040": "fence-lengths"}.get(r, "hashes-and-spaces")
            base = docs.g1_shards(1) + docs.g3_shards([tpl] if tier == "quick" else ["heading-levels", "hashes-and-spaces", "fence-lengths"])
            g2 = docs.g2_shards(_POOL2[:2] if tier == "quick" else _POOL2, replace=True)
            g2 = g2[::9] if tier == "quick" else g2[::2]
            for s in base + g2:
                out.append(self.job(dict(s, rule=r), budget=200.0 if tier == "quick" else 500.0))
        # MD013 'special elements': three independent limits (1..12) and the two switches symbolic
        for sk in (["# ab cd e\n\n    fg hi\n\njk lm n\n"] if tier == "quick" else ["# ab cd e\n\n    fg hi\n\njk lm n\n", "ab c\n===\n\n```\nd e f g\n```\n"]):
            out.append(self.job({"skeleton": sk, "holes": [], "rule": "md013x"}, budget=600.0))
        return out

    def bounds_text(self, tier):
        return {"rules": RULES + RULES2, "documents": "G1 length 0..1 + 2 skeletons every third position (quick) / G1 0..2 + 5 skeletons every second position (thorough)", "configuration": "br_spaces, maximum in 0..6; line_length unbounded Int >= 1; strict symbolic Bool; MD013 special elements: line/heading/code limits 1..12 independent, code_blocks and headings symbolic Bools"}

    def readable(self, case):
        from checks.rule_real import doc_of

        return json.dumps({"doc": doc_of(case), "rule": case["params"]["rule"], "vars": {k: v for k, v in case["vars"].items() if not k.startswith("c")}}, ensure_ascii=True)

    def signature(self, case, rr):
        return "verdict-differs:" + case["params"]["rule"]
