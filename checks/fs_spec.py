"""Spec of C19 (file discovery)."""
import json

from engine.spec import Spec

H = "\x00"  # hole marker inside argument skeletons
_NAMES = [["a.m?", "?.md"], ["b.?d", "c?md"], ["?.MD", "a.md"], ["a?", "?b.md"], ["a[?].md", "a?.md"]]
_ARGS = [
    ["/d"], ["/d/s"], ["/d", "/d/s"], ["/d/a.m" + H], ["/d/a.m" + H, "/d"], ["/d/" + H + ".md"], ["/d/*.m" + H, "/d/s"],
    ["/d/" + H, "/x"], ["/d/s/" + H + ".md", "/d/s/t"], ["/d/a.md", "/d/a.md", "/d"], ["/" + H], ["/d/s/e.txt"], ["/d/" + H + "*"],
    ["/d/s/" + H, "/d/a.md"], ["/d/" + H + H], ["/d/a[" + H + "].md"], ["/d/a" + H + "1].md", "/d/s"],
    # an argument that may fail *between* two that succeed (the error must not be forgotten, nothing may be scanned)
    ["/d/s/c.md", "/d/" + H, "/d/s"], ["/d/s", "/x", "/d/s/t/g.md"],
]


class C19(Spec):
    prop = "C19"
    sym_module = "checks.fs_sym"
    real_module = "checks.fs_real"
    rule_text = ("one symbolic path = one joint behaviour of ApplicationFileScanner.determine_files_to_scan (forward, reversed arguments, --list-files) and the reference model R-fs on a directory tree whose file names "
                 "and path arguments contain symbolic characters (any code point but '/' and NUL, so '.md', '.MD', '*', '?', dot-files all arise) and a symbolic --recurse Bool; "
                 "assertions: same error flag, same sorted duplicate-free list, argument order irrelevant, --list-files prints exactly the list; distinct = distinct (error flag, #files, recurse)")
    stubs = ["FS-tree stub (checks/fs_model.py, checks/fs_sym.py): os.path.exists/isdir/isfile, os.walk (top-down) and glob.glob (fnmatch '*', '?' and '[seq]' classes per segment, leading-dot rule, wildcards in the last segment only) "
             "over an association list of (path, kind); validated on every replayed witness against the real os.walk/glob on a real tree"]
    cuts = ["logging statements removed after a syntactic purity screen"]
    assumptions = ["tree shape is fixed (/d with two files whose names are symbolic, /d/s with c.md, e.txt, /d/s/t/g.md); names differ", "a path without '*' / '?' is literal even if it contains '[' (user guide); the reference model never globs it"]
    outside = ["the OS's own walk/glob beyond the stub contract, symlinks, permissions, case-insensitive file systems", "more than 3 path arguments, deeper trees"]

    def shards(self, tier):
        out = []
        names_sets = [_NAMES[0], _NAMES[1], _NAMES[4]] if tier == "quick" else _NAMES
        for ni, names in enumerate(names_sets):
            for ai, args in enumerate(_ARGS):
                if tier == "quick" and ((ni == 1 and ai % 2) or (ni == 2 and ai < len(_ARGS) - 6)):
                    continue
                for exts in ((".md",) if tier == "quick" and ai % 3 else (".md", ".md,.txt")):
                    out.append({"harness": "fs", "params": {"prop": "C19", "names": names, "args": args, "exts": exts}, "per_path_timeout": 30.0, "budget_s": 300.0 if tier == "quick" else 900.0})
        return out

    def bounds_text(self, tier):
        return {"tree": "/d{2 files with one symbolic character each}, /d/s{c.md,e.txt}, /d/s/t{g.md}", "arguments": "%d argument lists of 1-3 paths with up to 2 symbolic characters" % len(_ARGS), "options": "--recurse symbolic Bool; extensions .md and .md,.txt"}

    def readable(self, case):
        return json.dumps({"names": case["params"]["names"], "args": case["params"]["args"], "vars": case["vars"]})

    def signature(self, case, rr):
        v = (rr.get("observed") or {}).get("violations") or []
        return v[0]["kind"] if v else case["kind"]
