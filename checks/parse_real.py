"""Concrete replay of parser-family candidates on the unmodified code (no hooks, no stubs)."""
import os
import traceback


def _site(exc):
    chain = []
    e = exc
    while e is not None and len(chain) < 8:
        chain.append(e)
        e = e.__cause__ or (None if e.__suppress_context__ else e.__context__)
    root = chain[-1]
    tb = traceback.extract_tb(root.__traceback__)
    return {
        "outer": type(exc).__name__,
        "root": type(root).__name__,
        "site": f"{os.path.basename(tb[-1].filename)}:{tb[-1].name}" if tb else "?",
        "line": tb[-1].lineno if tb else 0,
        "msg": str(root)[:200],
        "outer_msg": str(exc)[:200],
    }


_TOK = None


def tokenizer():
    global _TOK
    if _TOK is None:
        from application_properties import ApplicationProperties
        from pymarkdown.extension_manager.extension_manager import ExtensionManager
        from pymarkdown.general.main_presentation import MainPresentation
        from pymarkdown.general.tokenized_markdown import TokenizedMarkdown

        props = ApplicationProperties()
        em = ExtensionManager(MainPresentation())
        em.initialize(None, props)
        em.apply_configuration()
        _TOK = TokenizedMarkdown()
        _TOK.apply_configuration(props, em)
    return _TOK


def doc_of(case):
    sk = case["params"]["skeleton"]
    holes = case["params"]["holes"]
    out = list(sk)
    for k, h in enumerate(holes):
        out[h] = chr(case["vars"][f"c{k}"])
    return "".join(out)


INBAND = "\u00fe\u8268\u8269\x01\x02\x03\x04\x05\x06\x07\x08"


def diffsig(a, b):
    """canonical description of how b differs from a"""
    import difflib

    parts = []
    for tag, i1, i2, j1, j2 in difflib.SequenceMatcher(None, a, b, autojunk=False).get_opcodes():
        if tag == "equal":
            continue
        where = "^" if i1 == 0 else ("$" if i2 == len(a) else "")
        parts.append(f"{where}{a[i1:i2]!r}->{b[j1:j2]!r}")
    return ";".join(parts)


def _roundtrip(doc, obs):
    """returns True if violated; fills obs"""
    from pymarkdown.transform_markdown.transform_to_markdown import TransformToMarkdown

    try:
        tokens = tokenizer().transform(doc, show_debug=False)
    except Exception as exc:  # noqa
        obs["exception"] = _site(exc)
        return False
    obs["tokens"] = " ".join(t.token_name for t in tokens)
    try:
        regen = TransformToMarkdown().transform(tokens)
    except Exception as exc:  # noqa
        obs["regen_exception"] = _site(exc)
        return True
    obs["regen"] = regen
    if regen != doc:
        obs["diff"] = diffsig(doc, regen)
        return True
    return False


def replay(case):
    """Returns {'violates': bool, 'observed': {...}} for the case's property."""
    from pymarkdown.transform_markdown.transform_to_markdown import TransformToMarkdown

    from engine.oracles import rpos, rstack

    prop = case["params"]["prop"]
    doc = doc_of(case)
    obs = {"doc": doc}
    try:
        tokens = tokenizer().transform(doc, show_debug=False)
    except Exception as exc:  # noqa
        obs["exception"] = _site(exc)
        return {"violates": prop == "C01", "observed": obs}
    obs["tokens"] = " ".join(t.token_name for t in tokens)
    if prop == "C01":
        return {"violates": False, "observed": obs}
    if prop == "C02":
        bad = _roundtrip(doc, obs)
        if bad and any(ch in INBAND for ch in doc):
            # differential: the same document with the reserved in-band characters replaced
            neutral = "".join("x" if ch in INBAND else ch for ch in doc)
            nobs = {"doc": neutral}
            nbad = _roundtrip(neutral, nobs)
            obs["neutral"] = {"violates": nbad, "observed": nobs}
        return {"violates": bad, "observed": obs}
    if prop == "C04":
        why = rstack.check(tokens)
        obs["why"] = why
        return {"violates": bool(why), "observed": obs}
    if prop == "C05":
        v = rpos.check(doc, tokens)
        obs["positions"] = v
        return {"violates": bool(v), "observed": obs}
    raise ValueError(prop)
