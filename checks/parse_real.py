"""Concrete replay of parser-family candidates on the unmodified code (no hooks, no stubs)."""
import os
import traceback


def _site(exc):
    chain = []
    e = exc
    while e is not None and len(chain) < 8:
        chain.append(e)
        e = e.__cause__ or (None if e.__suppress_context__ else e.__context__)
    root = chain[-1]
    tb = traceback.extract_tb(root.__traceback__)
    return {
        "outer": type(exc).__name__,
        "root": type(root).__name__,
        "site": f"{os.path.basename(tb[-1].filename)}:{tb[-1].name}" if tb else "?",
        "line": tb[-1].lineno if tb else 0,
        "msg": str(root)[:200],
        "outer_msg": str(exc)[:200],
    }


_TOK = None


def tokenizer():
    global _TOK
    if _TOK is None:
        from application_properties import ApplicationProperties
        from pymarkdown.extension_manager.extension_manager import ExtensionManager
        from pymarkdown.general.main_presentation import MainPresentation
        from pymarkdown.general.tokenized_markdown import TokenizedMarkdown

        props = ApplicationProperties()
        em = ExtensionManager(MainPresentation())
        em.initialize(None, props)
        em.apply_configuration()
        _TOK = TokenizedMarkdown()
        _TOK.apply_configuration(props, em)
    return _TOK


def doc_of(case):
    sk = case["params"]["skeleton"]
    holes = case["params"]["holes"]
    out = list(sk)
    for k, h in enumerate(holes):
        out[h] = chr(case["vars"][f"c{k}"])
    return "".join(out)


def replay(case):
    """Returns {'violates': bool, 'observed': {...}} for the case's property."""
    from pymarkdown.transform_markdown.transform_to_markdown import TransformToMarkdown

    from engine.oracles import rpos, rstack

    prop = case["params"]["prop"]
    doc = doc_of(case)
    obs = {"doc": doc}
    try:
        tokens = tokenizer().transform(doc, show_debug=False)
    except Exception as exc:  # noqa
        obs["exception"] = _site(exc)
        return {"violates": prop == "C01", "observed": obs}
    obs["tokens"] = " ".join(t.token_name for t in tokens)
    if prop == "C01":
        return {"violates": False, "observed": obs}
    if prop == "C02":
        try:
            regen = TransformToMarkdown().transform(tokens)
        except Exception as exc:  # noqa
            obs["regen_exception"] = _site(exc)
            return {"violates": True, "observed": obs}
        obs["regen"] = regen
        return {"violates": regen != doc, "observed": obs}
    if prop == "C04":
        why = rstack.check(tokens)
        obs["why"] = why
        return {"violates": bool(why), "observed": obs}
    if prop == "C05":
        v = rpos.check(doc, tokens)
        obs["positions"] = v
        return {"violates": bool(v), "observed": obs}
    raise ValueError(prop)
