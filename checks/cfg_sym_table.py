"""Documented rule settings (newdocs/src/plugins/rule_md*.md): type, default, validity."""

# documented settings: (rule id, item, type, default, validity) -- newdocs/src/plugins/rule_md*.md
def _ge(n):
    return lambda x: x >= n


def _between(a, b):
    return lambda x: a <= x <= b


def _one_of(*xs):
    return lambda x: any(x == y for y in xs)


ITEMS = {
    "md013.line_length": ("int", 80, _ge(1)),
    "md013.heading_line_length": ("int", 80, _ge(1)),
    "md013.code_block_line_length": ("int", 80, _ge(1)),
    "md013.code_blocks": ("bool", True, None),
    "md013.headings": ("bool", True, None),
    "md013.strict": ("bool", False, None),
    "md013.stern": ("bool", False, None),
    # markdownlint heritage kept by the rule: a value below 2 cannot make a hard break and is
    # stored as 0 (EFFECTIVE below)
    "md009.br_spaces": ("int", 2, _ge(0)),
    "md009.strict": ("bool", False, None),
    "md009.list_item_empty_lines": ("bool", False, None),
    "md012.maximum": ("int", 1, _ge(0)),
    "md007.indent": ("int", 2, _between(2, 4)),
    "md007.start_indented": ("bool", False, None),
    "md022.lines_above": ("int", 1, _ge(0)),
    "md022.lines_below": ("int", 1, _ge(0)),
    "md025.level": ("int", 1, _between(1, 6)),
    "md041.level": ("int", 1, _between(1, 6)),
    "md030.ul_single": ("int", 1, _ge(1)),
    "md030.ol_single": ("int", 1, _ge(1)),
    "md030.ul_multi": ("int", 1, _ge(1)),
    "md030.ol_multi": ("int", 1, _ge(1)),
    "md024.siblings_only": ("bool", False, None),
    "md029.allow_extended_start_values": ("bool", False, None),
    "md003.style": ("enum", "consistent", ["consistent", "atx", "atx_closed", "setext", "setext_with_atx", "setext_with_atx_closed"]),
    "md004.style": ("enum", "consistent", ["consistent", "asterisk", "dash", "plus", "sublist"]),
    "md029.style": ("enum", "one_or_ordered", ["one_or_ordered", "one", "ordered", "zero"]),
    "md046.style": ("enum", "consistent", ["consistent", "fenced", "indented"]),
    "md048.style": ("enum", "consistent", ["consistent", "backtick", "tilde"]),
}



# documented normalisation of an accepted value
EFFECTIVE = {"md009.br_spaces": lambda x: x if x >= 2 else 0}


def effective_of(item, val):
    f = EFFECTIVE.get(item)
    return f(val) if f else val


def words_for(item):
    typ, default, valid = ITEMS[item]
    return (list(valid) if typ == "enum" else []) + ["Consistent", "bogus", ""]


def value_of(params, v):
    kind = params["kind"]
    if kind == "int":
        return v["n"]
    if kind == "bool":
        return bool(v["b"])
    return words_for(params["item"])[v["choice"]]
