"""C03: pymarkdown's GFM HTML vs the vendored CommonMark reference (markdown-it-py),
both executed symbolically on the same cells."""
import os
import sys

from engine import docs, env
from engine.driver import SKIP, Raised
from engine.env import NoTracing, build_cells, sym_doc

sys.path.insert(0, os.path.join(env.VERIF, "vendor"))
from markdown_it import MarkdownIt  # noqa: E402

from pymarkdown.transform_gfm.transform_to_gfm import TransformToGfm  # noqa: E402

_MD = MarkdownIt("commonmark")
_TOK = None


def norm(html):
    """insignificant whitespace between block tags; one trailing newline"""
    html = html.replace(">\n<", "><")
    if html.endswith("\n"):
        html = html[:-1]
    return html


# C03 cell domain (DESIGN 5/C03): ASCII text + a few non-ASCII letters/spaces, minus the
# reference implementation's own deviations (it trims with Python's str.strip(): U+000B/C,
# U+001C-1F, U+0085, U+00A0 and every other Unicode space count as whitespace, which no
# CommonMark version says)
# and minus pymarkdown's reserved in-band characters (their loss is C02's known finding).
DOMAIN_RANGES = [(9, 10), (32, 126)]
DOMAIN_SINGLES = [0xE9, 0x3B1, 0x1F600]
DOMAIN_TEXT = "U+0009, U+000A, U+0020-U+007E, U+00E9, U+03B1, U+1F600"


def in_domain(c):
    for lo, hi in DOMAIN_RANGES:
        if lo <= c <= hi:
            return True
    for x in DOMAIN_SINGLES:
        if c == x:
            return True
    return False


class HtmlHarness:
    def __init__(self, params):
        global _TOK
        self.p = params
        self.skeleton = params["skeleton"]
        self.holes = list(params["holes"])
        if _TOK is None:
            _TOK = env.make_tokenizer()

    def variables(self):
        return [(f"c{i}", "int") for i in range(len(self.holes))]

    def body(self, v):
        cells = [v[f"c{i}"] for i in range(len(self.holes))]
        for c in cells:
            if not in_domain(c):
                return SKIP
        for i, k in enumerate(self.p.get("classes") or []):
            if not docs.in_class(cells[i], k):
                return SKIP
        d = sym_doc(build_cells(self.skeleton, self.holes, cells))
        toks = _TOK.transform(d, show_debug=False)
        g = TransformToGfm().transform(toks)
        m = _MD.render(d)
        return (d, g, m)

    def judge(self, obs, v):
        if isinstance(obs, Raised):
            return []  # C01's finding (pymarkdown) or an oracle crash: not a C03 verdict
        d, g, m = obs
        if norm(g) == norm(m):
            return []
        return [{"kind": "html-differs", "detail": {"pymarkdown": g, "reference": m}}]

    def digest(self, obs, rv):
        if isinstance(obs, Raised):
            return "raised:" + obs.root_type + "@" + obs.site
        d, g, m = obs
        with NoTracing():
            import re

            return " ".join(re.findall(r"<(/?[a-z0-9]+)", env.deep_realize(m)))[:200]


HARNESSES = {"html": HtmlHarness}
