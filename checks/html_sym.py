"""C03: pymarkdown's GFM HTML vs the vendored CommonMark reference (markdown-it-py),
both executed symbolically on the same cells."""
import os
import sys

from engine import docs, env
from engine.driver import SKIP, Raised
from engine.env import NoTracing, build_cells, sym_doc

sys.path.insert(0, os.path.join(env.VERIF, "vendor"))
from markdown_it import MarkdownIt  # noqa: E402

from checks.html_refdev import reference_deviates  # noqa: E402
from pymarkdown.transform_gfm.transform_to_gfm import TransformToGfm  # noqa: E402

_MD = MarkdownIt("commonmark")
_TOK = None


def norm(html):
    """insignificant whitespace between block tags; one trailing newline"""
    while " \n" in html:  # spaces before a line ending inside text are insignificant
        html = html.replace(" \n", "\n")
    html = html.replace(">\n<", "><")
    if html.endswith("\n"):
        html = html[:-1]
    return html


# C03 cell domain (DESIGN 5/C03): ASCII text + a few non-ASCII letters/spaces, minus the
# reference implementation's own deviations (it trims with Python's str.strip(): U+000B/C,
# U+001C-1F, U+0085, U+00A0 and every other Unicode space count as whitespace, which no
# CommonMark version says)
# and minus pymarkdown's reserved in-band characters (their loss is C02's known finding).
DOMAIN_RANGES = [(9, 10), (32, 126)]
DOMAIN_SINGLES = [0xE9, 0x3B1, 0x4E2D]
DOMAIN_TEXT = "U+0009, U+000A, U+0020-U+007E, U+00E9, U+03B1, U+4E2D"


def in_domain(c):
    for lo, hi in DOMAIN_RANGES:
        if lo <= c <= hi:
            return True
    for x in DOMAIN_SINGLES:
        if c == x:
            return True
    return False


def closing_fence_then_tab(d):
    """some line is a run of >= 3 backticks/tildes (after <= 3 spaces) followed by blanks that
    include a TAB"""
    start = 0
    n = len(d)
    while start <= n:
        end = start
        while end < n and not (d[end] == "\n"):
            end += 1
        line = d[start:end]
        if "\t" in line:
            i = 0
            while i < len(line) and i < 3 and line[i] == " ":
                i += 1
            if i < len(line) and (line[i] == "`" or line[i] == "~"):
                f = line[i]
                j = i
                while j < len(line) and line[j] == f:
                    j += 1
                if j - i >= 3:
                    rest = line[j:]
                    only_blank = True
                    for ch in rest:
                        if not (ch == " " or ch == "\t"):
                            only_blank = False
                            break
                    if only_blank and len(rest) > 0:
                        return True
        start = end + 1
    return False


class HtmlHarness:
    def __init__(self, params):
        global _TOK
        self.p = params
        self.skeleton = params["skeleton"]
        self.holes = list(params["holes"])
        if _TOK is None:
            _TOK = env.make_tokenizer()

    def variables(self):
        return [(f"c{i}", "int") for i in range(len(self.holes))]

    def body(self, v):
        cells = [v[f"c{i}"] for i in range(len(self.holes))]
        if self.p.get("alphabet"):
            for c in cells:
                if not docs.in_alphabet(c, self.p["alphabet"]):
                    return SKIP
            cells = [env.realize(c) for c in cells]
        else:
            for c in cells:
                if not in_domain(c):
                    return SKIP
        for i, k in enumerate(self.p.get("classes") or []):
            if not docs.in_class(cells[i], k):
                return SKIP
        d = sym_doc(build_cells(self.skeleton, self.holes, cells))
        toks = _TOK.transform(d, show_debug=False)
        g = TransformToGfm().transform(toks)
        if reference_deviates(d):
            return SKIP  # reference-side deviation from the specification (checks/html_refdev.py)
        if closing_fence_then_tab(d):
            return SKIP  # CommonMark 0.29 and 0.31 disagree (0.29: only spaces may follow a closing fence)
        # a final line ending is optional (spec 2.1): the reference gets one
        m = _MD.render(d if (len(d) > 0 and d[len(d) - 1] == "\n") else d + "\n")
        return (d, g, m)

    def judge(self, obs, v):
        if isinstance(obs, Raised):
            return []  # C01's finding (pymarkdown) or an oracle crash: not a C03 verdict
        d, g, m = obs
        if norm(g) == norm(m):
            return []
        return [{"kind": "html-differs", "detail": {"pymarkdown": g, "reference": m}}]

    def digest(self, obs, rv):
        if isinstance(obs, Raised):
            return "raised:" + obs.root_type + "@" + obs.site
        d, g, m = obs
        with NoTracing():
            import re

            return " ".join(re.findall(r"<(/?[a-z0-9]+)", env.deep_realize(m)))[:200]


HARNESSES = {"html": HtmlHarness}
