"""Specs of the scan family."""
import json

from engine import docs
from engine.spec import Spec

_CUTS = [
    "logging statements POGGER/LOGGER.<level>(...) removed after a syntactic purity screen",
    "ParserHelper.make_value_visible/make_whitespace_visible (log formatting) stubbed to ''",
    "PyMarkdownLint.__init__/__initialize_subsystems/__initialize_parser (argparse, plugin loading, configuration of concrete argv) run untraced",
]
_STUBS = [
    "VFS: open/tempfile.NamedTemporaryFile/shutil.copyfile/os.remove/os.path.* as seen from pymarkdown.file_scan_helper, .api, .general.source_providers, .application_file_scanner (engine/vfs.py); text-mode read applies universal newlines; UTF-8 assumed",
    "MainPresentation subclass collecting output records instead of printing",
    "MD999 (debug-only sample plugin that print()s every callback) is never enabled",
]
_ASSUME = [
    "cells range over every Unicode scalar value except NUL and CR unless a shard is marked domain=finite (hashing site, DESIGN 2.7)",
    "CrossHair 0.0.110 models of str/list/int and z3 are trusted; every candidate is replayed on the unmodified application against real files",
]


class _AppSpec(Spec):
    sym_module = "checks.scan_sym"
    real_module = "checks.scan_real"
    cuts = _CUTS
    stubs = _STUBS
    assumptions = _ASSUME
    per_path_timeout = 20.0
    outside = ["documents longer than the pool's / more than the stated number of free cells", "documents containing CR or NUL"]

    def job(self, harness, params, budget=200.0):
        p = dict(params)
        p["prop"] = self.prop
        return {"harness": harness, "params": p, "per_path_timeout": self.per_path_timeout, "budget_s": budget}

    def readable(self, case):
        from checks.scan_real import doc_of

        p = {k: v for k, v in case["params"].items() if k not in ("skeleton", "holes", "prop", "base", "mode")}
        try:
            return json.dumps({"doc": doc_of(case), **p}, ensure_ascii=True)
        except Exception:  # noqa
            return json.dumps({"params": case["params"], "vars": case["vars"]})

    def signature(self, case, rr):
        v = (rr.get("observed") or {}).get("violations") or []
        if v:
            d = v[0].get("detail") or {}
            f = d.get("failure")
            return v[0]["kind"] + (":" + str(f[2]) if f else "")
        return case["kind"]


class C07(_AppSpec):
    prop = "C07"
    rule_text = ("one symbolic path = one behaviour of two complete `scan` runs of the application on the same document; "
                 "assertions: no BadPluginError, every failure in range, strictly increasing (line, column, rule id), second run identical; "
                 "distinct = distinct (exit code, set of rule ids reported)")

    def shards(self, tier):
        out = [self.job("c07order", {"kernel": "order"}, budget=300.0)]
        sels = ["default", "all"]
        if tier == "quick":
            base = docs.g1_shards(1) + docs.g2_shards(docs.load_pool("mini"), replace=True)
            for sel in sels:
                for s in base:
                    out.append(self.job("c07", dict(s, selection=sel)))
        else:
            from checks.app_real import all_rule_ids

            base = docs.g1_shards(2) + docs.g2_shards(docs.load_pool("core"), replace=True)
            for sel in sels:
                for s in base:
                    out.append(self.job("c07", dict(s, selection=sel)))
            small = docs.g1_shards(1) + docs.g2_shards(docs.load_pool("mini")[:4], replace=True)
            for rid in all_rule_ids():
                for s in small:
                    out.append(self.job("c07", dict(s, selection="only:" + rid)))
        return out

    def bounds_text(self, tier):
        if tier == "quick":
            return {"documents": "G1 length 0..1; G2 mini pool, one symbolic cell replacing each position", "selections": "default rule set; all 46 rules enabled",
                    "kernel": "3 failures with unbounded Int line/column, rule ids from a 3-element set"}
        return {"documents": "G1 length 0..2; G2 core pool one cell; per-rule: G1 length 0..1 + 4 mini skeletons", "selections": "default; all; each of the 46 rules alone",
                "kernel": "3 failures with unbounded Int line/column, rule ids from a 3-element set"}
