"""Specs of the scan family."""
import json

from engine import docs
from engine.spec import Spec

_CUTS = [
    "logging statements POGGER/LOGGER.<level>(...) removed after a syntactic purity screen",
    "ParserHelper.make_value_visible/make_whitespace_visible (log formatting) stubbed to ''",
    "PyMarkdownLint.__init__/__initialize_subsystems/__initialize_parser (argparse, plugin loading, configuration of concrete argv) run untraced",
]
_STUBS = [
    "VFS: open/tempfile.NamedTemporaryFile/shutil.copyfile/os.remove/os.path.* as seen from pymarkdown.file_scan_helper, .api, .general.source_providers, .application_file_scanner (engine/vfs.py); text-mode read applies universal newlines; UTF-8 assumed",
    "MainPresentation subclass collecting output records instead of printing",
    "MD999 (debug-only sample plugin that print()s every callback) is never enabled",
]
_ASSUME = [
    "cells range over every Unicode scalar value except NUL and CR unless a shard is marked domain=finite (hashing site, DESIGN 2.7)",
    "CrossHair 0.0.110 models of str/list/int and z3 are trusted; every candidate is replayed on the unmodified application against real files",
]


class _AppSpec(Spec):
    sym_module = "checks.scan_sym"
    real_module = "checks.scan_real"
    cuts = _CUTS
    stubs = _STUBS
    assumptions = _ASSUME
    per_path_timeout = 20.0
    outside = ["documents longer than the pool's / more than the stated number of free cells", "documents containing CR or NUL"]

    def job(self, harness, params, budget=100.0):
        p = dict(params)
        p["prop"] = self.prop
        return {"harness": harness, "params": p, "per_path_timeout": self.per_path_timeout, "budget_s": budget}

    def readable(self, case):
        from checks.scan_real import doc_of

        p = {k: v for k, v in case["params"].items() if k not in ("skeleton", "holes", "prop", "base", "mode")}
        try:
            return json.dumps({"doc": doc_of(case), **p}, ensure_ascii=True)
        except Exception:  # noqa
            return json.dumps({"params": case["params"], "vars": case["vars"]})

    def signature(self, case, rr):
        v = (rr.get("observed") or {}).get("violations") or []
        if v:
            d = v[0].get("detail") or {}
            f = d.get("failure")
            return v[0]["kind"] + (":" + str(f[2]) if f else "")
        return case["kind"]


class C07(_AppSpec):
    prop = "C07"
    rule_text = ("one symbolic path = one behaviour of two complete `scan` runs of the application on the same document; "
                 "assertions: no BadPluginError, every failure in range, strictly increasing (line, column, rule id), second run identical; "
                 "distinct = distinct (exit code, set of rule ids reported)")

    def shards(self, tier):
        out = [self.job("c07order", {"kernel": "order"}, budget=300.0)]
        sels = ["default", "all"]
        multi = [sk for sk in docs.load_pool("core") if sk.count("\n") >= 2 and ("`\n" in sk or "(\n" in sk or "a\nb" in sk)]
        if tier == "quick":
            base = docs.g1_shards(1) + docs.g2_shards(docs.load_pool("mini"), replace=True)
            for sel in sels:
                for s in base:
                    out.append(self.job("c07", dict(s, selection=sel)))
            for s in docs.g3_shards() + [{"skeleton": sk, "holes": []} for sk in multi] + docs.g2_shards(multi, replace=True)[::4]:
                out.append(self.job("c07", dict(s, selection="all"), budget=200.0))
        else:
            from checks.app_real import all_rule_ids

            for s in docs.g3_shards() + docs.g2_shards(multi, replace=True):
                for sel in sels:
                    out.append(self.job("c07", dict(s, selection=sel), budget=400.0))

            base = docs.g1_shards(2) + _strided(docs.g2_shards(docs.load_pool("core"), replace=True), 2)
            for sel in sels:
                for s in base:
                    out.append(self.job("c07", dict(s, selection=sel)))
            small = docs.g1_shards(1) + _strided(docs.g2_shards(docs.load_pool("mini")[:4], replace=True), 6)
            for rid in all_rule_ids():
                for s in small:
                    out.append(self.job("c07", dict(s, selection="only:" + rid)))
        return out

    def bounds_text(self, tier):
        if tier == "quick":
            return {"documents": "G1 length 0..1; G2 mini pool, one symbolic cell replacing each position", "selections": "default rule set; all 46 rules enabled",
                    "kernel": "3 failures with unbounded Int line/column, rule ids from a 3-element set"}
        return {"documents": "G1 length 0..2; G2 core pool one cell; per-rule: G1 length 0..1 + 4 mini skeletons", "selections": "default; all; each of the 46 rules alone",
                "kernel": "3 failures with unbounded Int line/column, rule ids from a 3-element set"}


def _fixable_default_rules():
    from checks.app_real import _collecting_presentation
    import os

    import pymarkdown.main
    from application_properties import ApplicationProperties
    from pymarkdown.plugin_manager.plugin_manager import PluginManager

    pm = PluginManager(_collecting_presentation())
    pm.initialize(os.path.join(os.path.dirname(pymarkdown.main.__file__), "plugins"), [], "", "", ApplicationProperties(), False, False)
    return sorted(p.plugin_id.lower() for p in pm._PluginManager__registered_plugins
                  if p.plugin_supports_fix and p.plugin_enabled_by_default and p.plugin_id.lower() != "md999")


class C09(_AppSpec):
    prop = "C09"
    sym_module = "checks.fix_sym"
    rule_text = ("one symbolic path = one joint behaviour of fix(d), fix(fix(d)) and scan(fix(d)) through PyMarkdownLint.main over the VFS; "
                 "assertions: second fix leaves the bytes unchanged (symbolic string equality) and reports nothing fixed, scan of the fixed text has no failure of a fix-capable rule; "
                 "distinct = distinct (exit codes, rule ids left)")

    def shards(self, tier):
        out = []
        rules = _fixable_default_rules()
        if tier == "quick":
            base = docs.g1_shards(1) + docs.g2_shards(docs.load_pool("mini"), replace=True)
            for s in base:
                out.append(self.job("c09", dict(s, selection="default")))
            for rid in rules:
                for s in docs.g1_shards(1):
                    out.append(self.job("c09", dict(s, selection="only:" + rid)))
            for s in docs.g3_shards():
                out.append(self.job("c09", dict(s, selection="default"), budget=300.0))
        else:
            for s in docs.g3_shards():
                out.append(self.job("c09", dict(s, selection="default"), budget=600.0))
            base = docs.g1_shards(2) + _strided(docs.g2_shards(docs.load_pool("core"), replace=True), 2)
            for s in base:
                out.append(self.job("c09", dict(s, selection="default")))
            small = docs.g1_shards(1) + _strided(docs.g2_shards(docs.load_pool("mini"), replace=True), 3)
            for rid in rules:
                for s in small:
                    out.append(self.job("c09", dict(s, selection="only:" + rid)))
            tiny = docs.g1_shards(1) + docs.g3_shards(["blank-lines-and-trailing-spaces"])
            for i, a in enumerate(rules):
                for b in rules[i + 1:]:
                    for s in tiny:
                        out.append(self.job("c09", dict(s, selection=f"set:{a},{b}"), budget=200.0))
        return out

    def bounds_text(self, tier):
        if tier == "quick":
            return {"documents": "G1 length 0..1; G2 mini pool one cell", "selections": "default rule set; each fix-capable default rule alone (G1 only)"}
        return {"documents": "G1 length 0..2; G2 core pool one cell", "selections": "default; each fix-capable default rule alone (G1 0..1 + mini pool); every pair of fix-capable default rules (G1 0..1 + 3 skeletons)"}


class C10(_AppSpec):
    prop = "C10"
    sym_module = "checks.fix_sym"
    rule_text = ("one symbolic path = one joint behaviour of `scan` then `fix` of the same document over the logging VFS; assertions: scan performs no write/create/remove and leaves no file; "
                 "bytes changed <=> 'Fixed:' announced <=> fixed-at-least-one-file exit code; no fix-capable failure in scan => unchanged; no temporary file left; "
                 "distinct = distinct (exit codes, #fixed, rule ids)")

    def shards(self, tier):
        out = []
        if tier == "quick":
            base = docs.g1_shards(1) + docs.g2_shards(docs.load_pool("mini"), replace=True)
            for s in base:
                out.append(self.job("c10", dict(s, selection="default")))
            for s in docs.g1_shards(1) + docs.g2_shards(docs.load_pool("mini")[:2], replace=True):
                out.append(self.job("c10", dict(s, selection="default", scheme="minimal")))
            for s in docs.g3_shards(["heading-levels", "blank-lines-and-trailing-spaces", "list-indents"]):
                out.append(self.job("c10", dict(s, selection="default"), budget=300.0))
            # two files in one invocation, the last one clean / needing a fix
            for second in ("# ok\n", "x  \n\n\ny"):
                for s in docs.g1_shards(1) + docs.g2_shards(["a  \n"], replace=True):
                    out.append(self.job("c10", dict(s, selection="default", second=second)))
        else:
            base = docs.g1_shards(2) + _strided(docs.g2_shards(docs.load_pool("core"), replace=True), 2)
            for scheme in ("default", "minimal"):
                for s in (base if scheme == "default" else docs.g1_shards(1) + docs.g2_shards(docs.load_pool("mini"), replace=True)):
                    out.append(self.job("c10", dict(s, selection="default", scheme=scheme)))
            for s in docs.g1_shards(1) + docs.g2_shards(docs.load_pool("mini"), replace=True):
                out.append(self.job("c10", dict(s, selection="all")))
            for second in ("# ok\n", "x  \n\n\ny", ""):
                for s in docs.g1_shards(1) + docs.g2_shards(docs.load_pool("mini"), replace=True):
                    out.append(self.job("c10", dict(s, selection="default", second=second)))
        return out

    def bounds_text(self, tier):
        return {"documents": "G1 length 0..1 + mini pool one cell (quick) / G1 0..2 + core pool (thorough)", "files_per_invocation": "1, and 2 (second file clean / needing a fix)",
                "schemes": "default and minimal return-code schemes", "note": "multi-file invocations are covered by C13/C18"}


def _strided(shards, k):
    return [s for i, s in enumerate(shards) if i % k == 0]


class C12(_AppSpec):
    prop = "C12"
    max_witness_replays = 60
    per_path_timeout = 60.0
    rule_text = ("one symbolic path = one joint behaviour of 48 scans of the same symbolic document (all 46 rules, the default set, each rule alone; thorough: + default minus each default rule), "
                 "each through its own real PluginManager+FileScanHelper; assertion: bag of (line, column, rule, extra) of a set == bag union of its members alone; "
                 "distinct = distinct sets of rule ids reported with all rules on")

    def shards(self, tier):
        if tier == "quick":
            base = docs.g1_shards(1) + _strided(docs.g2_shards(docs.load_pool("mini"), replace=True), 8)
            base += _strided(docs.g2_shards(["<!-- pyml disable-next-line md009-->\na\tb   \n"], replace=True), 13)
            base += docs.g3_shards(["hashes-and-spaces"])
            return [self.job("c12", s, budget=300.0) for s in base]
        base = docs.g1_shards(1) + _strided(docs.g2_shards(docs.load_pool("core"), replace=True), 7)
        base += _strided(docs.g2_shards(["<!-- pyml disable-next-line md009-->\na\tb   \n"], replace=True), 6) + docs.g3_shards(["hashes-and-spaces", "blank-lines-and-trailing-spaces"])
        return [self.job("c12", dict(s, minus=True), budget=900.0) for s in base]

    def bounds_text(self, tier):
        if tier == "quick":
            return {"documents": "G1 length 0..1; mini pool, one symbolic cell at every eighth position", "configurations": "all, default, each of the 46 rules alone"}
        return {"documents": "G1 length 0..1; core pool one cell at every seventh position; a pragma document; two G3 templates", "configurations": "all, default, each rule alone, default minus each default-enabled rule"}


class C14(_AppSpec):
    prop = "C14"
    rule_text = ("one symbolic path = one run of the application with a recording rule loaded through --add-plugin; assertion on its call log: per file start, then the tokens of a direct parse "
                 "(compared by str(), pragma token removed, end-of-stream included) in order, then every line with its number and exact text (symbolic string equality), then completed; "
                 "a disabled recorder logs nothing; distinct = distinct call-shape strings")
    stubs = _STUBS + ["recording rule /verif/plugins/recorder_rule.py registered through the real --add-plugin path"]
    outside = _AppSpec.outside + ["fix mode: only the shape of each pass (start token* line* completed) is asserted for a non-fix and a fix-capable recorder, not the equality of the delivered tokens with a direct parse"]

    def shards(self, tier):
        out = []
        if tier == "quick":
            base = docs.g1_shards(2, split_from=9) if False else docs.g1_shards(1)
            pool = docs.load_pool("mini") + ["<!-- pyml disable-next-line md013-->\n", "a"]
            for s in base + docs.g2_shards(pool[:9], replace=True)[::2] + docs.g2_shards(pool[9:], replace=True)[::4]:
                out.append(self.job("c14", s))
            for s in docs.g1_shards(1):
                out.append(self.job("c14", dict(s, second="# x\n\n- y\n")))
                out.append(self.job("c14", dict(s, disabled=True)))
            for fixrule in (False, True):
                for s in docs.g1_shards(1) + docs.g2_shards(["a  \n\n\n\nb\t\n"], replace=True)[::2]:
                    out.append(self.job("c14fix", dict(s, fixrule=fixrule)))
        else:
            for fixrule in (False, True):
                for s in docs.g1_shards(1) + docs.g2_shards(["a  \n\n\n\nb\t\n"] + docs.load_pool("mini"), replace=True):
                    out.append(self.job("c14fix", dict(s, fixrule=fixrule)))
            pool = docs.load_pool("core") + ["<!-- pyml disable-next-line md013-->\n", "a"]
            for s in docs.g1_shards(2) + docs.g2_shards(pool, replace=True):
                out.append(self.job("c14", s))
            for s in docs.g1_shards(1) + docs.g2_shards(docs.load_pool("mini"), replace=True):
                out.append(self.job("c14", dict(s, second="# x\n\n- y\n")))
            for s in docs.g1_shards(1):
                out.append(self.job("c14", dict(s, disabled=True)))
        return out

    def bounds_text(self, tier):
        return {"documents": "G1 length 0..1 (quick) / 0..2 (thorough); mini (quick, every second position) / core pool one cell; pragma-only and no-final-newline skeletons", "files": "1 or 2 per invocation", "mode": "scan"}


class C16(_AppSpec):
    prop = "C16"
    rule_text = ("one symbolic path = one joint behaviour of six entry points on the same symbolic document (CR allowed): main scan <file>, main scan-stdin, PyMarkdownApi.scan_string, .scan_path, "
                 "main fix <file>, PyMarkdownApi.fix_string; assertion: identical (line, column, rule id, rule name, extra) lists / identical fixed text (symbolic string equality), no temp file left; "
                 "the concrete replay additionally runs --log-level DEBUG/INFO, --log-file, --stack-trace with the real logging handlers; distinct = distinct (rule ids, inapplicable routes)")
    assumptions = [a.replace("except NUL and CR", "except NUL (CR is included here: CR-LF and lone CR line ends)") for a in _ASSUME] + [
        "scan_string/fix_string reject the empty string by documented contract: those routes are compared for non-empty documents only"]
    outside = ["documents longer than the pool's / more than the stated number of free cells",
               "log level cannot influence results through the logging statements removed by the purity screen (by construction); ApplicationLogging handlers are exercised only in the concrete replay", "non-UTF-8 locale"]

    def shards(self, tier):
        out = []
        if tier == "quick":
            for s in docs.g1_shards(1) + docs.g2_shards(["a\r\nb", "# a\n\nb"], replace=True) + _strided(docs.g2_shards(docs.load_pool("mini"), replace=True), 3):
                out.append(self.job("c16", s, budget=150.0))
            for s in docs.g1_shards(1):
                out.append(self.job("c16", dict(s, disable="md047", stack_trace=True)))
        else:
            for s in docs.g1_shards(2) + docs.g2_shards(["a\r\nb", "# a\n\nb", "a\rb\r\n"] + docs.load_pool("core"), replace=True):
                out.append(self.job("c16", s, budget=300.0))
            for s in docs.g1_shards(1) + docs.g2_shards(docs.load_pool("mini")[:4], replace=True):
                out.append(self.job("c16", dict(s, disable="md047", stack_trace=True)))
        return out

    def bounds_text(self, tier):
        return {"documents": "G1 length 0..1 (quick) / 0..2 (thorough) with CR allowed; CR-LF skeletons; mini pool every third position (quick) / core pool (thorough)", "rule selections": "default; md047 disabled through -d and through disable_rule_by_identifier"}


# first documents that set state a later file could inherit: link definitions, heading history,
# list state, pragmas, counters, front matter-like text, html blocks, code fences left open
_C13_FIRST = [
    "[a]: /u\n\n# h\n",
    "# a\n\n### b\n\n# a\n",
    "1. a\n1. b\n- c\n+ d\n",
    "<!-- pyml disable-num-lines 5 md041,md047,md004,md012,md022,md009-->\nx",
    "```text\nunclosed\n",
    "*a* __b__ <div>\n\n    code\n",
    "> q\n> - l\n\n\n\n* * *\n",
]
_C13_FIRST += [
    "# Title\n\nSome ordinary text.",
    "- a\n- b",
    "> q",
    "a\n***",
    "| x |\n\n<div>\nhtml",
]
_C13_SECOND = ["[a]\n", "## b\n", "1. x\n", "x", "- a\n+ b\n", "# a\n", "***\n___\n",
               # documents that open with each kind of block on their first line
               "```text\ncode\n```\n\nMore text.\n", "    code\n", "> q\n", "<div>\n", "[b]: /v\n\n[b]\n", "\n\nx\n", "+ a\n", "### h\n", "a\n===\n",
               # documents whose *first element* is what a rule treats specially (MD033 first-image idiom, MD041 first-line HTML heading,
               # front-matter-like opening, a pragma as the first line)
               "<h1 align=\"center\"><img src=\"l.png\" alt=\"l\"/></h1>\n\ntext\n", "<h1>t</h1>\n\n## b\n",
               "---\nt: 1\n---\n\n# a\n", "<!-- pyml disable-next-line md041-->\nx\n"]


class C13(_AppSpec):
    prop = "C13"
    per_path_timeout = 30.0
    rule_text = ("one symbolic path = one joint behaviour of processing [d1, d2] in one invocation and d2 alone in a fresh one (scan and fix; or one PyMarkdownApi object reused); "
                 "assertion: failures, pragma errors, fixed bytes and 'Fixed:' announcement of d2 are identical; d1 from a pool of state-setting documents, d2 with a symbolic cell (quick) / both with a symbolic cell (thorough); "
                 "distinct = distinct sets of rule ids reported for d2")

    def readable(self, case):
        from checks.scan_real import docs_of_c13

        d1, d2 = docs_of_c13(case)
        return json.dumps({"d1": d1, "d2": d2, "mode": case["params"].get("mode"), "api": case["params"].get("api")}, ensure_ascii=True)

    def shards(self, tier):
        out = []

        def holes(sk, stride):
            return list(range(0, len(sk), stride))

        # every ordered pair (first, second) of the pools: the second document is selected by a z3 Int
        for first in _C13_FIRST:
            for mode in ("scan", "fix"):
                out.append(self.job("c13", {"sk1": first, "holes1": [], "sk2": "", "holes2": [], "seconds": _C13_SECOND, "mode": mode}, budget=300.0))
        if tier == "quick":
            for i, first in enumerate(_C13_FIRST[:7]):
                second = _C13_SECOND[i % 7]
                for mode in ("scan", "fix"):
                    for h in holes(second, 3):
                        out.append(self.job("c13", {"sk1": first, "holes1": [], "sk2": second, "holes2": [h], "mode": mode}, budget=120.0))
                out.append(self.job("c13", {"sk1": first, "holes1": [], "sk2": "?", "holes2": [0], "mode": "scan", "api": True}))
            # symbolic cell in the first document, concrete second
            for h in (1, 5):
                out.append(self.job("c13", {"sk1": "[a]: /u\n\n# h\n", "holes1": [h], "sk2": "[a]\n", "holes2": [], "mode": "scan"}, budget=150.0))
        else:
            for fi, first in enumerate(_C13_FIRST):
                for si, second in enumerate(_C13_SECOND[:16]):  # cells only in the seconds whose enlarged space was run end-to-end
                    if (fi + si) % 3:
                        continue
                    for mode in ("scan", "fix"):
                        for h in holes(second, 2):
                            out.append(self.job("c13", {"sk1": first, "holes1": [], "sk2": second, "holes2": [h], "mode": mode}, budget=200.0))
                    out.append(self.job("c13", {"sk1": first, "holes1": [], "sk2": second, "holes2": [0], "mode": "scan", "api": True}))
                for h in holes(first, 6):
                    out.append(self.job("c13", {"sk1": first, "holes1": [h], "sk2": "[a] x\n", "holes2": [4], "mode": "scan"}, budget=600.0))
        return out

    def bounds_text(self, tier):
        return {"first documents": len(_C13_FIRST), "second documents": len(_C13_SECOND), "cells": "one symbolic cell in d2 (every second position, quick; every position, thorough); thorough: one cell in d1 and one in d2",
                "histories": "ordered pairs in one invocation (scan, fix); one reused API object", "outside": "triples and longer histories; the inductive step over arbitrary rule-instance state is not built"}


_C18_ARGV = [
    (["scan", "/vfs/missing.md"], "no-files"),
    (["scan", "/vfs/*.txt"], "no-files"),
    (["scan", "-l", "/vfs/f.md"], "success"),
    (["scan", "-l", "/vfs/f.md", "/vfs/missing.md"], "no-files"),
    (["scan", "/vfs/f.md", "/vfs/missing.md"], "no-files"),
    (["plugins", "list"], "success"),
    (["extensions", "list"], "success"),
    (["plugins", "info", "md001"], "success"),
    (["--config", "/vfs/bad.json", "scan", "/vfs/f.md"], "system-error"),
    (["--strict-config", "--config", "/vfs/cfg.json", "scan", "/vfs/f.md"], "system-error"),
    (["--strict-config", "-s", "plugins.md013.line_length=$#0", "scan", "/vfs/f.md"], "system-error"),
    (["--add-plugin", "/vfs/none.py", "scan", "/vfs/f.md"], "system-error"),
    ([], "command-line"),
]


class C18(_AppSpec):
    prop = "C18"
    per_path_timeout = 30.0
    rule_text = ("kernel: ReturnCodeHelper with symbolic outcome category x scheme (argument or configuration) against the user-guide table; whole program: PyMarkdownLint.main over the VFS with symbolic file "
                 "contents and a symbolic fault index k of a raising rule, exit code compared with R-exit(category read from what was printed, scheme); distinct = distinct (scenario, exit code, category flags)")
    stubs = _STUBS + ["recording/raising rule /verif/plugins/recorder_rule.py registered through --add-plugin (fault index k symbolic)"]
    outside = _AppSpec.outside + ["argparse's own exit paths are exercised with concrete argv only"]

    def readable(self, case):
        if "argv" in case["params"] or case["params"].get("kernel"):
            return json.dumps({"params": case["params"], "vars": case["vars"]})
        return _AppSpec.readable(self, case)

    def shards(self, tier):
        out = [self.job("c18kernel", {"kernel": True})]
        for minimal in (False, True):
            for argv, cat in _C18_ARGV:
                out.append(self.job("c18concrete", {"argv": argv, "category": cat, "minimal": minimal}))
        pool = ["# a\n\nb", "x  \n"] if tier == "quick" else docs.load_pool("mini")[:4]
        base = docs.g1_shards(1) + docs.g2_shards(pool, replace=True)
        for sc in ("scan1", "fix1", "scan2", "fix2", "stdin", "list"):
            for minimal, by in ((False, "arg"), (True, "arg"), (True, "set")):
                if tier == "quick" and (sc in ("scan2", "fix2", "list") and by == "set"):
                    continue
                use = base if sc in ("scan1", "fix1") or tier != "quick" else docs.g1_shards(1)
                for s in use:
                    out.append(self.job("c18", dict(s, scenario=sc, minimal=minimal, scheme_by=by)))
        for sc in ("fault", "fault-continue", "fault-fix"):
            for minimal in (False, True):
                for sk in (["# a\n\n- b\n"] if tier == "quick" else ["# a\n\n- b\n", "x  \n", ""]):
                    out.append(self.job("c18", {"skeleton": sk, "holes": [], "scenario": sc, "minimal": minimal}, budget=200.0))
                if tier != "quick":
                    out.append(self.job("c18", {"skeleton": "# ?\n", "holes": [2], "scenario": sc, "minimal": minimal}, budget=900.0))
        return out

    def bounds_text(self, tier):
        return {"kernel": "6 categories x 2 schemes x {argument, configuration}", "documents": "G1 length 0..1 + 2 skeletons (quick) / mini pool (thorough), one symbolic cell",
                "scenarios": "scan/fix of 1 and 2 files, scan-stdin, --list-files, rule fault at symbolic callback index k in 0..60 with/without --continue-on-error and in fix mode, %d concrete argv shapes" % len(_C18_ARGV)}


class C15(_AppSpec):
    prop = "C15"
    per_path_timeout = 30.0
    rule_text = ("fault index k (z3 Int): a rule loaded through --add-plugin raises at its k-th callback / the parser raises at its k-th invocation / the process dies at step k of the write-back (VFS copyfile model: before open, after truncation, after each 4-character chunk); "
                 "z3 forks 'this call / a later one' at every callback, so every individual invocation is a path; assertions: system-error exit code, error names the file, other files unaffected with --continue-on-error, every input original or completely fixed, no temporary file left; "
                 "distinct = distinct (scenario, faulted, exit code, #failures, k)")
    stubs = _STUBS + ["recording/raising rules /verif/plugins/recorder_rule.py, recorder_fix_rule.py (fix-capable) through --add-plugin; parser fault injected by wrapping TokenizedMarkdown.__parse_blocks_pass; undecodable file = open() raising UnicodeDecodeError; process death = BaseException unwinding to the harness with the VFS snapshot taken at the crash instant"]
    outside = _AppSpec.outside + ["real signals / power loss (modelled; the concrete replay kills a real child process with os._exit at the chosen step)", "the C decoder itself"]

    def shards(self, tier):
        out = []
        docs_a = ["# a\n\n- b\n  - c\n\nd  \ne"] if tier == "quick" else ["# a\n\n- b\n  - c\n\nd  \ne", "# a\n\nb  \nc", "", "- a\n\n\n+ b\t\n"]
        for sk in docs_a:
            for mode in ("scan", "fix"):
                for cont in (False, True):
                    out.append(self.job("c15", {"skeleton": sk, "holes": [], "scenario": "plugin-fault", "mode": mode, "cont": cont, "fixrule": mode == "fix"}, budget=300.0))
                    out.append(self.job("c15", {"skeleton": sk, "holes": [], "scenario": "parser-fault", "mode": mode, "cont": cont}, budget=200.0))
                    for which in ("a", "b"):
                        out.append(self.job("c15", {"skeleton": sk, "holes": [], "scenario": "undecodable", "mode": mode, "cont": cont, "which": which}))
            out.append(self.job("c15", {"skeleton": sk, "holes": [], "scenario": "crash", "mode": "fix"}, budget=200.0))
        # a symbolic cell in the document together with the symbolic fault index
        cells = [("# ?\n", [2])] if tier == "quick" else [("# ?\n", [2]), ("?  \n", [0]), ("- a\n?", [4])]
        for sk, holes in cells:
            out.append(self.job("c15", {"skeleton": sk, "holes": holes, "scenario": "plugin-fault", "mode": "scan", "cont": True}, budget=400.0 if tier == "quick" else 1200.0))
            if tier != "quick":
                out.append(self.job("c15", {"skeleton": sk, "holes": holes, "scenario": "crash", "mode": "fix"}, budget=1200.0))
        return out

    def bounds_text(self, tier):
        return {"fault index k": "0..80 (covers every callback / parser invocation / write-back step of the 2-file runs used)", "files": "2 per invocation, fault in either", "modes": "scan, fix, with and without --continue-on-error",
                "documents": "1 (quick) / 3 (thorough) concrete first documents + one document with a symbolic cell"}


_C11_DOCS = ["# a\n\nb   \nc\n", "a\n\n\n\nb", "- a\n- b\n\n1. c\n", "> a   \n> b\n", "```\na   \n```\n", "x\ty\n# h #\n"]


class C11(_AppSpec):
    prop = "C11"
    per_path_timeout = 30.0
    rule_text = ("kernel: real PluginManager.compile_pragmas + log_scan_failure with a symbolic failure line, symbolic count digits and a symbolic named/other-rule Bool against the documented range; pipeline: the same symbolic document scanned "
                 "with and without a pragma line inserted at a line boundary (both prefixes, id/alias/unknown/blank identifiers, disable-next-line and disable-num-lines): failures equal the shifted failures minus exactly the named ones on the covered lines, "
                 "malformed pragmas suppress nothing and are reported, the token stream without the pragma token equals the original shifted by one line; distinct = distinct (failure counts, rule ids)")
    outside = _AppSpec.outside + ["count spellings other than ASCII digits that Python's int() accepts ('+3', ' 3', non-ASCII digits)", "fix-mode pragma renumbering"]

    def shards(self, tier):
        out = []
        for p in ((1, 3) if tier == "quick" else (1, 2, 3, 7)):
            for prefix in ("<!--", "<!---"):
                out.append(self.job("c11kernel", {"p": p, "command": "disable-next-line", "prefix": prefix}))
                for nd in (1, 2):
                    out.append(self.job("c11kernel", {"p": p, "command": "disable-num-lines", "digits": nd, "prefix": prefix}))
            out.append(self.job("c11kernel", {"p": p, "command": "disable-next-line", "ident": "line-length"}))
            out.append(self.job("c11kernel", {"p": p, "command": "disable-next-line", "ident": "md999x"}))
            out.append(self.job("c11kernel", {"p": p, "command": "disable-num-lines", "digits": 1, "ident": "nope"}))
        out.append(self.job("c11kernel2", {"kinds": ["disable-next-line", "disable-num-lines"]}, budget=400.0))
        out.append(self.job("c11kernel2", {"kinds": ["disable-num-lines", "disable-num-lines"]}, budget=400.0))
        pragmas = [
            ("<!-- pyml disable-next-line md009-->", "disable-next-line", 1, ["md009"], True),
            ("<!--- pyml disable-next-line no-trailing-spaces-->", "disable-next-line", 1, ["md009"], True),
            ("<!-- pyml disable-num-lines 2 md009,md012-->", "disable-num-lines", 2, ["md009", "md012"], True),
            ("<!-- pyml disable-num-lines 0 md009-->", "disable-num-lines", 0, [], False),
            ("<!-- pyml disable-next-line bogus-->", "disable-next-line", 1, [], False),
        ]
        pool = _C11_DOCS[:3] if tier == "quick" else _C11_DOCS
        for di, d in enumerate(pool):
            nlines = d.count("\n") + 1
            for at in range(nlines):
                for pi, (text, cmd, n, named, ok) in enumerate(pragmas):
                    if tier == "quick" and (at + pi + di) % 3:
                        continue
                    holes = [h for h in range(len(d)) if d[h] not in "\n"]
                    hs = holes[:: max(1, len(holes) // 2)][:2] if tier == "quick" else holes[::2]
                    out.append(self.job("c11", {"skeleton": d, "holes": [], "at": at, "pragma": text, "command": cmd, "n": n, "named": named, "wellformed": ok}))
                    for h in hs[:1] if tier == "quick" else hs:
                        out.append(self.job("c11", {"skeleton": d[:h] + "?" + d[h + 1:], "holes": [h], "at": at, "pragma": text, "command": cmd, "n": n, "named": named, "wellformed": ok}, budget=150.0))
        return out

    def bounds_text(self, tier):
        return {"kernel": "pragma line p in {1,3} (quick) / {1,2,3,7}; failure line 1..14 symbolic; count = 1-2 symbolic ASCII digits; id, alias, unknown id", "pipeline": "%d documents, pragma inserted at every line boundary, 5 pragma texts, one symbolic cell" % (3 if tier == "quick" else len(_C11_DOCS)), "rules": "all 46 enabled"}


_C08_POOL = [">  a `b\n> c\n> d` e\n", "- a `b\n  c` d\n\n  e\n-   f\n    g\n", "#  a\n\n*  b\n+ c  \n", "a\tb  \n\n\n1. c\n1. d\n", "```\nc\n```\n\n    d\n", "# a\n### b ##\n*x* y\n", "# a\n### b ##\n*x* `y ` [z]( /u )\n", "> a\n>  b\n\n***\n---\n", "1. a\n   - b\n\n     c\n"]


class C08(_AppSpec):
    prop = "C08"
    sym_module = "checks.fix_sym"
    per_path_timeout = 40.0
    rule_text = ("one symbolic path = fix of a symbolic document through the real application plus the reference parser run on the original and on the fixed text; assertion: content fingerprints (engine/oracles/rfp.py) are equal -- "
                 "block kinds and nesting, text, inline kinds, link/image targets, code content, raw HTML; whitespace, marker characters, list numbers, code-block style, heading level and adjacent-list boundaries are projected out; "
                 "paths where pymarkdown's HTML already differs from the reference are skipped (C03); distinct = distinct fingerprints")
    stubs = _STUBS + ["reference parser markdown-it-py (vendored) executed symbolically on the original and the fixed text"]
    assumptions = ["cells range over the C03 domain (U+0009, U+000A, U+0020-U+007E, U+00E9, U+03B1, U+4E2D)"] + _ASSUME[1:]

    def shards(self, tier):
        out = []
        if tier == "quick":
            for s in docs.g1_shards(1):
                out.append(self.job("c08", dict(s, selection="default"), budget=200.0))
            for i, s in enumerate(docs.g2_shards(_C08_POOL[:4], replace=True)):
                if i % 3 == 0:
                    out.append(self.job("c08", dict(s, selection="default"), budget=300.0))
            for s in docs.g3_shards(["heading-levels", "list-indents", "hashes-and-spaces", "fence-lengths"]):
                out.append(self.job("c08", dict(s, selection="default"), budget=400.0))
        else:
            for s in docs.g1_shards(2) + _strided(docs.g2_shards(_C08_POOL, replace=True), 2) + docs.g3_shards():
                out.append(self.job("c08", dict(s, selection="default"), budget=600.0))
            for rid in _fixable_default_rules():
                for s in docs.g1_shards(1) + docs.g2_shards(_C08_POOL[:3], replace=True)[::8]:
                    out.append(self.job("c08", dict(s, selection="only:" + rid), budget=400.0))
        return out

    def bounds_text(self, tier):
        if tier == "quick":
            return {"documents": "G1 length 0..1; 4 fix-provoking skeletons, one symbolic cell at every third position", "selection": "default rule set"}
        return {"documents": "G1 length 0..2; 7 fix-provoking skeletons, one cell at every second position; G3 templates", "selection": "default; each fix-capable default rule alone"}
