"""Concrete replays of the scan family on the unmodified application and real files."""
from checks import scan_props
from checks.app_real import Sandbox, real_main, rule_args

F = "/vfs/f.md"


def doc_of(case):
    tpl = case["params"].get("template")
    if tpl:
        out, k = [], 0
        for part in tpl:
            if isinstance(part, str):
                out.append(part)
            else:
                out.append(part[1] * case["vars"][f"n{k}"])
                k += 1
        return "".join(out)
    sk = case["params"].get("skeleton", "")
    out = list(sk)
    for k, h in enumerate(case["params"].get("holes", [])):
        out[h] = chr(case["vars"][f"c{k}"])
    return "".join(out)


def _t5(fails):
    return [tuple(f[1:]) for f in fails]


def replay(case):
    prop = case["params"]["prop"]
    if prop == "C13":
        return replay_c13(case)
    if prop == "C18" and case["params"].get("kernel"):
        return {"violates": False, "observed": {"note": "kernel case: no whole-program replay"}}
    if prop == "C18" and "argv" in case["params"]:
        return replay_c18_concrete(case)
    doc = doc_of(case)
    obs = {"doc": doc}
    sel = case["params"].get("selection", "default")
    if prop == "C07":
        with Sandbox() as sb:
            sb.write(F, doc)
            argv = rule_args(sel) + ["scan", F]
            o1 = real_main(sb, argv)
            o2 = real_main(sb, argv)
        v = scan_props.c07(doc, _t5(o1["fails"]), _t5(o2["fails"]), o1["err"], o1["code"])
        obs.update(code=o1["code"], fails=o1["fails"], err=o1["err"][:3], violations=v)
        return {"violates": bool(v), "observed": obs}
    if prop == "C09":
        return replay_c09(case, doc, obs)
    if prop == "C10":
        return replay_c10(case, doc, obs)
    if prop == "C12":
        return replay_c12(case, doc, obs)
    if prop == "C14":
        return replay_c14(case, doc, obs)
    if prop == "C16":
        return replay_c16(case, doc, obs)
    if prop == "C18":
        return replay_c18(case, doc, obs)
    if prop == "C15":
        return replay_c15(case, doc, obs)
    if prop == "C11":
        return replay_c11(case, doc, obs)
    if prop == "C08":
        return replay_c08(case, doc, obs)
    raise ValueError(prop)


class _O:
    """adapter giving a concrete observation the attribute interface scan_props expects"""

    def __init__(self, o, files=None, log=()):
        self.code = o["code"]
        self.err = o["err"]
        self.out = o["out"]
        self.fixed = o["fixed"]
        self._fails = o["fails"]
        self.files = files or []
        self.log = list(log)

    def fail_tuples(self):
        return _t5(self._fails)


def _fixable():
    import os

    import pymarkdown.main
    from application_properties import ApplicationProperties
    from pymarkdown.plugin_manager.plugin_manager import PluginManager

    from checks.app_real import _collecting_presentation

    pm = PluginManager(_collecting_presentation())
    pm.initialize(os.path.join(os.path.dirname(pymarkdown.main.__file__), "plugins"), [], "", "", ApplicationProperties(), False, False)
    return {p.plugin_id.lower() for p in pm._PluginManager__registered_plugins if p.plugin_supports_fix}


def _files(sb):
    return [(p, sb.read(p)) for p in sb.listing()] + [("/vtmp/" + n, "") for n in sb.temp_leftovers()]


def replay_c09(case, doc, obs):
    sel = rule_args(case["params"].get("selection", "default"))
    with Sandbox() as sb:
        sb.write(F, doc)
        o1 = real_main(sb, sel + ["fix", F])
        d1 = sb.read(F)
        o2 = real_main(sb, sel + ["fix", F])
        d2 = sb.read(F)
        o3 = real_main(sb, sel + ["scan", F])
    v = scan_props.c09(doc, d1, d2, _O(o1), _O(o2), _t5(o3["fails"]), _fixable())
    obs.update(after_first=d1, after_second=d2, codes=[o1["code"], o2["code"], o3["code"]], err=o1["err"][:2], violations=v)
    return {"violates": bool(v), "observed": obs}


def replay_c10(case, doc, obs):
    sel = rule_args(case["params"].get("selection", "default"))
    minimal = case["params"].get("scheme") == "minimal"
    pre = ["--return-code-scheme", "minimal"] if minimal else []
    import hashlib
    import os

    with Sandbox() as sb:
        sb.write(F, doc)
        before = os.stat(sb.path(F))
        os_ = real_main(sb, pre + sel + ["scan", F])
        ds = sb.read(F)
        after = os.stat(sb.path(F))
        files_s = _files(sb)
        log = [] if (before.st_mtime_ns == after.st_mtime_ns and before.st_ino == after.st_ino) else [("write", F)]
        if case["params"].get("second") is not None:
            G = "/vfs/g.md"
            sb.write(G, case["params"]["second"])
            of = real_main(sb, pre + sel + ["fix", F, G])
            d1, g1 = sb.read(F), sb.read(G)
            v = scan_props.c10_two(doc, d1, case["params"]["second"], g1, _O(of, _files(sb)), F, G, minimal)
            obs.update(after_fix=d1, codes=[of["code"]], fixed=of["fixed"], violations=v)
            return {"violates": bool(v), "observed": obs}
        of = real_main(sb, pre + sel + ["fix", F])
        d1 = sb.read(F)
        files_f = _files(sb)
    v = scan_props.c10(doc, ds, _O(os_, files_s, log), d1, _O(of, files_f), _fixable(), F, minimal)
    obs.update(after_fix=d1, codes=[os_["code"], of["code"]], fixed=of["fixed"], violations=v)
    return {"violates": bool(v), "observed": obs}


def _table():
    import os

    import pymarkdown.main
    from application_properties import ApplicationProperties
    from pymarkdown.plugin_manager.plugin_manager import PluginManager

    from checks.app_real import _collecting_presentation

    pm = PluginManager(_collecting_presentation())
    pm.initialize(os.path.join(os.path.dirname(pymarkdown.main.__file__), "plugins"), [], "", "", ApplicationProperties(), False, False)
    return sorted((p.plugin_id.lower(), bool(p.plugin_enabled_by_default)) for p in pm._PluginManager__registered_plugins if p.plugin_id.lower() != "md999")


def _bag(fails):
    return sorted((f[1], f[2], f[3], f[5] or "") for f in fails)


def replay_c12(case, doc, obs):
    table = _table()
    ids = [r for r, _ in table]
    default_ids = [r for r, d in table if d]
    sels = ["all", "default"] + ["only:" + r for r in ids]
    if case["params"].get("minus"):
        sels += ["minus:" + r for r in default_ids]
    res = {}
    with Sandbox() as sb:
        sb.write(F, doc)
        for sel in sels:
            o = real_main(sb, rule_args(sel) + ["scan", F])
            res[sel] = None if (o["code"] not in (0, 1) or any("Error" in e for e in o["err"])) else _bag(o["fails"])
    v = scan_props.c12(res, ids, default_ids)
    obs.update(all=res.get("all"), violations=v)
    return {"violates": bool(v), "observed": obs}


def replay_c14(case, doc, obs):
    import os
    import sys

    from checks.parse_real import tokenizer

    plug = os.path.join(os.path.dirname(os.path.dirname(os.path.abspath(__file__))), "plugins")
    if plug not in sys.path:
        sys.path.insert(0, plug)
    import recorder_rule

    R = recorder_rule.RecorderRule
    if case["harness"] == "c14fix":
        rp = os.path.join(plug, "recorder_fix_rule.py" if case["params"].get("fixrule") else "recorder_rule.py")
        R.reset()
        with Sandbox() as sb:
            sb.write(F, doc)
            o = real_main(sb, ["--add-plugin", rp, "fix", F])
        log = list(R.LOG)
        R.reset()
        if any("Error" in e for e in o["err"]):
            return {"violates": False, "observed": dict(obs, err=o["err"][:2])}
        v = scan_props.c14_fix_shape(log)
        obs.update(calls="".join(e[0][0] for e in log)[:200], violations=v)
        return {"violates": bool(v), "observed": obs}
    second = case["params"].get("second")
    disabled = bool(case["params"].get("disabled"))
    argv = ["--add-plugin", os.path.join(plug, "recorder_rule.py")] + (["-d", "vpr001"] if disabled else []) + ["scan", F] + (["/vfs/g.md"] if second is not None else [])
    R.reset()
    with Sandbox() as sb:
        sb.write(F, doc)
        if second is not None:
            sb.write("/vfs/g.md", second)
        o = real_main(sb, argv)
    log = list(R.LOG)
    ds = [doc] + ([second] if second is not None else [])
    toks = []
    for d in ds:
        try:
            t = tokenizer().transform(d, show_debug=False, do_add_end_of_stream_token=True)
            if t and t[-1].is_pragma:
                t = t[:-1]
            toks.append(t)
        except Exception:  # noqa
            toks.append(None)
    if any("Error" in e for e in o["err"]):
        return {"violates": False, "observed": dict(obs, err=o["err"][:2])}
    v = scan_props.c14(log, ds, toks, enabled=not disabled)
    obs.update(calls="".join(e[0][0] for e in log)[:200], violations=v)
    return {"violates": bool(v), "observed": obs}


def replay_c16(case, doc, obs):
    from pymarkdown.api import PyMarkdownApi, PyMarkdownApiException

    disable = case["params"].get("disable")
    pre = (["-d", disable] if disable else []) + (["--stack-trace"] if case["params"].get("stack_trace") else [])

    def api():
        a = PyMarkdownApi(inherit_logging=True)
        return a.disable_rule_by_identifier(disable) if disable else a

    def tup(res):
        return [(f.line_number, f.column_number, f.rule_id, f.rule_name, f.extra_error_information) for f in res.scan_failures]

    routes, fixed = {}, {}
    with Sandbox() as sb:
        sb.write(F, doc)
        o = real_main(sb, pre + ["scan", F])
        routes["scan-file"] = None if any("Error" in e for e in o["err"]) else _t5(o["fails"])
        o2 = real_main(sb, pre + ["scan-stdin"], stdin=doc)
        routes["scan-stdin"] = None if any("Error" in e for e in o2["err"]) else _t5(o2["fails"])
        if doc:
            try:
                routes["api-scan_string"] = tup(api().scan_string(doc))
            except PyMarkdownApiException:
                routes["api-scan_string"] = None
        try:
            routes["api-scan_path"] = tup(api().scan_path(sb.path(F)))
        except PyMarkdownApiException:
            routes["api-scan_path"] = None
        # diagnostics options change nothing (real logging, real handlers)
        for extra in (["--log-level", "DEBUG"], ["--log-level", "INFO", "--stack-trace"]):
            import logging

            lvl = logging.getLogger().level
            try:
                from pymarkdown.main import PyMarkdownLint

                from checks.app_real import _collecting_presentation

                pres = _collecting_presentation()
                logf = sb.path("/vfs/log.txt")
                ok = True
                try:
                    PyMarkdownLint(presentation=pres).main(extra + ["--log-file", logf] + pre + ["scan", sb.path(F)])
                except SystemExit:
                    pass
                except Exception:  # noqa  (the replay's own logging environment failed: route not compared)
                    ok = False
                routes["scan-file " + " ".join(extra)] = None if (not ok or any("Error" in e for e in pres.err)) else [(f.line_number, f.column_number, f.rule_id, f.rule_name, f.extra_error_information) for f in pres.fails]
            finally:
                root = logging.getLogger()
                for h in list(root.handlers):
                    if isinstance(h, logging.FileHandler):
                        root.removeHandler(h)
                        h.close()
                root.setLevel(lvl)
        o3 = real_main(sb, pre + ["fix", F])
        fixed["fix-file"] = None if (any("Error" in e for e in o3["err"]) or o3["code"] == 1) else sb.read(F)
        if doc:
            try:
                fixed["api-fix_string"] = api().fix_string(doc).fixed_file
            except PyMarkdownApiException:
                fixed["api-fix_string"] = None
        left = sb.temp_leftovers()
    v = scan_props.c16(routes, fixed)
    if left:
        v.append({"kind": "temp-file-left", "detail": {"files": left}})
    obs.update(routes={k: (None if r is None else len(r)) for k, r in routes.items()}, fix_routes_failed=[k for k, t in fixed.items() if t is None], violations=v)
    return {"violates": bool(v), "observed": obs}


A, B = "/vfs/a.md", "/vfs/b.md"


def docs_of_c13(case):
    p = dict(case["params"])
    if p.get("seconds"):
        p["sk2"], p["holes2"] = p["seconds"][case["vars"]["j"]], []
    n1 = len(p["holes1"])
    cells = [case["vars"][f"c{i}"] for i in range(n1 + len(p["holes2"]))]
    d1 = list(p["sk1"])
    for k, h in enumerate(p["holes1"]):
        d1[h] = chr(cells[k])
    d2 = list(p["sk2"])
    for k, h in enumerate(p["holes2"]):
        d2[h] = chr(cells[n1 + k])
    return "".join(d1), "".join(d2)


def replay_c13(case):
    from pymarkdown.api import PyMarkdownApi, PyMarkdownApiException

    p = case["params"]
    d1, d2 = docs_of_c13(case)
    obs = {"d1": d1, "d2": d2}
    pre = rule_args(p.get("selection", "default"))
    mode = p.get("mode", "scan")
    if p.get("api"):
        if not d1 or not d2:
            return {"violates": False, "observed": obs}
        try:
            one = PyMarkdownApi(inherit_logging=True)
            one.scan_string(d1)
            rm = one.scan_string(d2)
            rs = PyMarkdownApi(inherit_logging=True).scan_string(d2)
        except PyMarkdownApiException as e:
            obs["api_exception"] = str(e)[:200]
            return {"violates": False, "observed": obs}
        t = lambda r: [(f.line_number, f.column_number, f.rule_id, f.rule_name, f.extra_error_information) for f in r.scan_failures]
        pe = lambda r: [(x.line_number, x.pragma_error) for x in r.pragma_errors]
        v = scan_props.c13(t(rm), t(rs), pe(rm), pe(rs), "", "", False, False)
        obs["violations"] = v
        return {"violates": bool(v), "observed": obs}
    with Sandbox() as sb:
        sb.write(A, d1)
        sb.write(B, d2)
        om = real_main(sb, pre + [mode, A, B])
        mt = sb.read(B)
    with Sandbox() as sb:
        sb.write(B, d2)
        os_ = real_main(sb, pre + [mode, B])
        st = sb.read(B)
    if any("Error" in e for e in om["err"] + os_["err"]):
        obs["err"] = (om["err"] + os_["err"])[:2]
        return {"violates": False, "observed": obs}
    mf = [tuple(f[1:]) for f in om["fails"] if f[0] == B]
    sf = [tuple(f[1:]) for f in os_["fails"]]
    mp = [tuple(x[1:]) for x in om["pragma"] if x[0] == B]
    sp = [tuple(x[1:]) for x in os_["pragma"]]
    v = scan_props.c13(mf, sf, mp, sp, mt, st, B in om["fixed"], B in os_["fixed"])
    obs["violations"] = v
    return {"violates": bool(v), "observed": obs}


def _recorder():
    import os
    import sys

    plug = os.path.join(os.path.dirname(os.path.dirname(os.path.abspath(__file__))), "plugins")
    if plug not in sys.path:
        sys.path.insert(0, plug)
    import recorder_rule

    return recorder_rule.RecorderRule, os.path.join(plug, "recorder_rule.py")


def replay_c18(case, doc, obs):
    p = case["params"]
    sc = p["scenario"]
    minimal = bool(p.get("minimal"))
    pre = []
    if minimal:
        pre = ["--return-code-scheme", "minimal"] if p.get("scheme_by", "arg") == "arg" else ["-s", "mode.return_code_scheme=minimal"]
    GOOD, BAD = "# ok\n", "x  \n\n\ny"
    R, RPATH = _recorder()
    R.reset()
    with Sandbox() as sb:
        if sc == "scan1":
            sb.write(F, doc); o = real_main(sb, pre + ["scan", F])
        elif sc == "fix1":
            sb.write(F, doc); o = real_main(sb, pre + ["fix", F])
        elif sc == "scan2":
            sb.write(A, doc); sb.write(B, BAD); o = real_main(sb, pre + ["scan", A, B])
        elif sc == "fix2":
            sb.write(A, doc); sb.write(B, GOOD); o = real_main(sb, pre + ["fix", A, B])
        elif sc == "stdin":
            o = real_main(sb, pre + ["scan-stdin"], stdin=doc)
        elif sc == "list":
            sb.write(F, doc); o = real_main(sb, pre + ["scan", "-l", F])
        elif sc in ("fault", "fault-continue", "fault-fix"):
            R.reset(fault_at=case["vars"]["k"])
            sb.write(A, doc); sb.write(B, BAD)
            o = real_main(sb, pre + ["--add-plugin", RPATH] + (["--continue-on-error"] if sc == "fault-continue" else []) + ["fix" if sc == "fault-fix" else "scan", A, B])
        else:
            raise ValueError(sc)
    R.reset()
    v = scan_props.c18(o["code"], o["err"], [] if sc == "list" else o["fails"], o["fixed"], minimal)
    obs.update(code=o["code"], err=o["err"][:3], nfails=len(o["fails"]), fixed=o["fixed"], violations=v)
    return {"violates": bool(v), "observed": obs}


def replay_c18_concrete(case):
    """argv-shaped scenarios without a document (replayed as they are)."""
    p = case["params"]
    minimal = bool(p.get("minimal"))
    pre = ["--return-code-scheme", "minimal"] if minimal else []
    with Sandbox() as sb:
        sb.write("/vfs/bad.json", "{ not json")
        sb.write("/vfs/cfg.json", '{"plugins": {"md013": {"line_length": "x"}}}')
        sb.write(F, "# ok\n")
        o = real_main(sb, pre + p["argv"])
    v = scan_props.c18(o["code"], o["err"], o["fails"], o["fixed"], minimal, forced_category=p["category"])
    return {"violates": bool(v), "observed": {"argv": p["argv"], "code": o["code"], "err": o["err"][:2], "violations": v}}


_CRASH_CHILD = r'''
import json, os, sys, shutil
sys.path.insert(0, os.environ.get("VERIF_REPO", "/repo"))
spec = json.load(open(sys.argv[1]))
state = {"step": 0}
CH = spec["chunk"]
def tick():
    k = state["step"]; state["step"] = k + 1
    if k == spec["crash_at"]:
        os._exit(9)
def copyfile(src, dst):
    text = open(src, encoding="utf-8", newline="").read()
    tick()                                   # before-open
    f = open(dst, "w", encoding="utf-8", newline="")
    f.flush(); os.fsync(f.fileno())
    tick()                                   # after-truncate
    i = 0
    while i < len(text):
        f.write(text[i:i + CH]); f.flush(); os.fsync(f.fileno())
        i += CH
        if i < len(text):
            tick()                           # after-chunk
    f.close()
    return dst
import pymarkdown.file_scan_helper as FS
class _Sh:
    copyfile = staticmethod(copyfile)
    def __getattr__(self, n): return getattr(shutil, n)
FS.shutil = _Sh()
_orig_replace = os.replace
def replace(src, dst):
    tick()
    return _orig_replace(src, dst)
os.replace = replace
from pymarkdown.main import PyMarkdownLint
try:
    PyMarkdownLint().main(spec["argv"])
except SystemExit as e:
    sys.exit(0)
'''


def replay_c15(case, doc, obs):
    import json
    import os
    import subprocess
    import sys

    p = case["params"]
    sc, mode, cont = p["scenario"], p.get("mode", "scan"), bool(p.get("cont"))
    OTHER = "x  \n\n- p\n  - q\n\n\n# y"
    R, RPATH = _recorder()
    if p.get("fixrule"):
        RPATH = RPATH.replace("recorder_rule.py", "recorder_fix_rule.py")
    base = ["--add-plugin", RPATH]
    argv = base + (["--continue-on-error"] if cont else []) + [mode, A, B]
    originals = {A: doc, B: OTHER}
    fixed_alone, other_alone = {}, None
    R.reset()
    if mode == "fix":
        for path in (A, B):
            with Sandbox() as sb:
                sb.write(path, originals[path])
                real_main(sb, base + ["fix", path])
                fixed_alone[path] = sb.read(path)
    if cont:
        with Sandbox() as sb:
            sb.write(B, OTHER)
            oo = real_main(sb, base + [mode, B])
            other_alone = [tuple(f[1:]) for f in oo["fails"]]
    k = case["vars"].get("k")
    if sc == "crash":
        with Sandbox() as sb:
            sb.write(A, doc)
            sb.write(B, OTHER)
            spec = {"argv": [sb.path(a) if a.startswith("/vfs/") else a for a in argv], "crash_at": k, "chunk": 4}
            sp = os.path.join(sb.root, "spec.json")
            json.dump(spec, open(sp, "w"))
            env = dict(os.environ, TMPDIR=sb.tmp)
            r = subprocess.run([sys.executable, "-c", _CRASH_CHILD, sp], env=env, capture_output=True, timeout=60)
            crashed = r.returncode == 9
            files = [(x, sb.read(x)) for x in sb.listing()]
        v = scan_props.c15_crash(files, crashed, [A, B], originals, fixed_alone)
        obs.update(crashed=crashed, files=files, violations=v)
        return {"violates": bool(v), "observed": obs}
    pf = None
    if sc == "parser-fault":
        from pymarkdown.general.tokenized_markdown import TokenizedMarkdown

        name = "_TokenizedMarkdown__parse_blocks_pass"
        orig = getattr(TokenizedMarkdown, name)
        pf = {"n": 0, "fired": False}

        def wrapped(self, *a, **kw):
            n = pf["n"]
            pf["n"] = n + 1
            if n == k:
                pf["fired"] = True
                raise RuntimeError("injected parser fault")
            return orig(self, *a, **kw)

        setattr(TokenizedMarkdown, name, wrapped)
    try:
        with Sandbox() as sb:
            sb.write(A, doc)
            sb.write(B, OTHER)
            bad = None
            if sc == "undecodable":
                bad = A if p.get("which", "a") == "a" else B
                sb.write_bytes(bad, b"\xff\xfe" + originals[bad].encode("utf-8"))
                originals[bad] = None
            R.reset(fault_at=k if sc == "plugin-fault" else None)
            o = real_main(sb, argv)
            files = []
            for x in sb.listing():
                try:
                    files.append((x, sb.read(x)))
                except UnicodeDecodeError:
                    files.append((x, None))
            files += [("/vtmp/" + n, "") for n in sb.temp_leftovers()]
            if sc == "undecodable":
                faulted, ff = True, bad
                fixed_alone[bad] = None
                other_alone = None
            elif sc == "plugin-fault":
                faulted, ff = R.FAULTED, (sb.vpath(R.FAULT_FILE) if R.FAULT_FILE else None)
            else:
                faulted, ff = pf["fired"], None
    finally:
        if pf is not None:
            setattr(TokenizedMarkdown, name, orig)
        R.reset()
    oo = _O(o, files)
    oo.fail_tuples = lambda with_file=False: [tuple(f) if with_file else tuple(f[1:]) for f in o["fails"]]
    other = B if ff != B else A
    v = scan_props.c15_fault(oo, [A, B], faulted, ff, cont, mode, originals, fixed_alone, other_alone if other == B else None, other)
    obs.update(code=o["code"], err=o["err"][:2], faulted=faulted, fault_file=ff, violations=v)
    return {"violates": bool(v), "observed": obs}


def replay_c11(case, doc, obs):
    from checks.parse_real import tokenizer

    p = case["params"]
    if "kinds" in p:  # two-pragma kernel: replay through the whole application
        vv = case["vars"]
        a, b, l, n = vv["p1"], vv["p2"], vv["l"], vv["d"] - 48
        rule = ["md013", "md047", "md009"][vv["r"]]
        if rule != "md013" or l in (a, b):
            return {"violates": False, "observed": {"note": "kernel-only variant"}}
        lines = ["ok"] * 12
        lines[a - 1] = "<!-- pyml disable-next-line md013-->" if p["kinds"][0] == "disable-next-line" else f"<!-- pyml disable-num-lines {n} md013-->"
        lines[b - 1] = f"<!-- pyml disable-num-lines {n} md047-->"
        lines[l - 1] = ("xy " * 34).strip()
        text = "\n".join(lines) + "\n"
        with Sandbox() as sb:
            sb.write(F, text)
            o = real_main(sb, rule_args("only:md013") + ["scan", F])
        cover_a = (l == a + 1) if p["kinds"][0] == "disable-next-line" else (a + 1 <= l <= a + n)
        sup = not any(f[1] == l for f in o["fails"])
        v = [] if sup == cover_a else [{"kind": "suppression", "detail": {"suppressed": sup, "expected": cover_a, "first_pragma_line": a, "second_pragma_line": b, "failure_line": l, "count": n}}]
        return {"violates": bool(v), "observed": {"doc": text[:160], "fails": o["fails"], "violations": v}}
    if "p" in p:  # kernel case: replay through the whole application
        l, other = case["vars"]["l"], case["vars"]["other"]
        digits = "".join(chr(case["vars"][f"d{i}"]) for i in range(p.get("digits", 1))) if p["command"] == "disable-num-lines" else ""
        pl = p["p"]
        prefix = p.get("prefix", "<!--")
        ident = p.get("ident", "md013")
        # a document with pragma at line pl and a too-long line / missing final newline at line l
        long = ("xy " * 34).strip()
        lines = ["ok"] * 16
        lines[pl - 1] = f"{prefix} pyml {p['command']} {digits}{' ' if digits else ''}{ident}-->"
        if l - 1 == pl - 1:
            return {"violates": False, "observed": {"note": "failure line coincides with the pragma line"}}
        lines[l - 1] = long
        text = "\n".join(lines) + "\n"
        with Sandbox() as sb:
            sb.write(F, text)
            o = real_main(sb, rule_args("only:md013") + ["scan", F])
        n = int(digits) if digits else 0
        known = ident in ("md013", "line-length")
        if p["command"] == "disable-next-line":
            want_sup = known and l == pl + 1
            want_err = 0 if known else 1
        else:
            want_sup = n >= 1 and known and pl + 1 <= l <= pl + n
            want_err = 0 if (n >= 1 and known) else 1
        sup = not any(f[1] == l for f in o["fails"])
        v = []
        if other:
            return {"violates": False, "observed": {"note": "other-rule variant is kernel-only"}}
        if sup != want_sup:
            v.append({"kind": "suppression", "detail": {"suppressed": sup, "expected": want_sup, "pragma_line": pl, "failure_line": l, "count": n}})
        if len(o["pragma"]) != want_err:
            v.append({"kind": "pragma-error-count", "detail": {"errors": len(o["pragma"]), "expected": want_err}})
        return {"violates": bool(v), "observed": {"doc": text[:200], "fails": o["fails"], "pragma": o["pragma"], "violations": v}}
    dp = scan_props.insert_line(doc, p["at"], p["pragma"])
    argv = rule_args(p.get("selection", "all")) + ["scan", F]
    with Sandbox() as sb:
        sb.write(F, doc)
        o_d = real_main(sb, argv)
    with Sandbox() as sb:
        sb.write(F, dp)
        o_p = real_main(sb, argv)
    if any("Error" in e for e in o_d["err"] + o_p["err"]):
        return {"violates": False, "observed": dict(obs, err=(o_d["err"] + o_p["err"])[:2])}

    def masked(d):
        try:
            toks = tokenizer().transform(d, show_debug=False, do_add_end_of_stream_token=True)
        except Exception:  # noqa
            return None
        if toks and toks[-1].is_pragma:
            toks = toks[:-1]
        return [(t.token_name, t.line_number, t.column_number, str(t).replace(f"({t.line_number},{t.column_number})", "(L,C)", 1)) for t in toks]

    v = scan_props.c11_pipeline(_t5(o_d["fails"]), _t5(o_p["fails"]), [tuple(x[1:]) for x in o_p["pragma"]], p["at"], p.get("command", "disable-next-line"), p.get("n", 1),
                                set(p.get("named", [])), p.get("wellformed", True), masked(doc), masked(dp))
    obs.update(with_pragma=dp, violations=v)
    return {"violates": bool(v), "observed": obs}


_MD = None


def replay_c08(case, doc, obs):
    global _MD
    import os
    import sys

    from checks.html_real import norm
    from checks.parse_real import tokenizer
    from engine.oracles import rfp
    from pymarkdown.transform_gfm.transform_to_gfm import TransformToGfm

    if _MD is None:
        sys.path.insert(0, os.path.join(os.path.dirname(os.path.dirname(os.path.abspath(__file__))), "vendor"))
        from markdown_it import MarkdownIt

        _MD = MarkdownIt("commonmark")
    try:
        g = TransformToGfm().transform(tokenizer().transform(doc, show_debug=False))
    except Exception:  # noqa
        return {"violates": False, "observed": dict(obs, note="does not parse")}
    if norm(g) != norm(_MD.render(doc)):
        return {"violates": False, "observed": dict(obs, note="C03 precondition false")}
    with Sandbox() as sb:
        sb.write(F, doc)
        o = real_main(sb, rule_args(case["params"].get("selection", "default")) + ["fix", F])
        d1 = sb.read(F)
    if any("Error" in e for e in o["err"]) or o["code"] == 1:
        return {"violates": False, "observed": dict(obs, err=o["err"][:1])}
    f0, f1 = rfp.fingerprint(_MD.parse(doc)), rfp.fingerprint(_MD.parse(d1))
    v = [] if (d1 == doc or f0 == f1) else [{"kind": "meaning-changed", "detail": {"fixed": d1, "before": f0, "after": f1}}]
    obs.update(fixed=d1, violations=v)
    return {"violates": bool(v), "observed": obs}
