"""Concrete replays of the scan family on the unmodified application and real files."""
from checks import scan_props
from checks.app_real import Sandbox, real_main, rule_args

F = "/vfs/f.md"


def doc_of(case):
    sk = case["params"]["skeleton"]
    out = list(sk)
    for k, h in enumerate(case["params"]["holes"]):
        out[h] = chr(case["vars"][f"c{k}"])
    return "".join(out)


def _t5(fails):
    return [tuple(f[1:]) for f in fails]


def replay(case):
    prop = case["params"]["prop"]
    doc = doc_of(case)
    obs = {"doc": doc}
    sel = case["params"].get("selection", "default")
    if prop == "C07":
        with Sandbox() as sb:
            sb.write(F, doc)
            argv = rule_args(sel) + ["scan", F]
            o1 = real_main(sb, argv)
            o2 = real_main(sb, argv)
        v = scan_props.c07(doc, _t5(o1["fails"]), _t5(o2["fails"]), o1["err"], o1["code"])
        obs.update(code=o1["code"], fails=o1["fails"], err=o1["err"][:3], violations=v)
        return {"violates": bool(v), "observed": obs}
    raise ValueError(prop)
