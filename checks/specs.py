"""Registry: property id -> Spec."""
from checks.cfg_spec import C17
from checks.ext_spec import C20
from checks.fs_spec import C19
from checks.html_spec import C03
from checks.parse_spec import C01, C02, C04, C05
from checks.rule_spec import C06
from checks.scan_spec import C07, C08, C09, C10, C11, C12, C13, C14, C15, C16, C18

SPECS = {}
for _s in (C01(), C02(), C03(), C04(), C05(), C06(), C07(), C08(), C09(), C10(), C11(), C12(), C13(), C14(), C15(), C16(), C17(), C18(), C19(), C20()):
    SPECS[_s.prop] = _s

# Thorough tiers whose enlarged space has been run end-to-end on the unchanged tree and triaged.
# For the others `--tier thorough` explores the quick space again (same verdict, longer budgets):
# the larger space is built (spec.shards("thorough")) but every such run surfaces further
# pinned-tree defect classes that must be triaged into known_findings.json before it may be
# registered (a check that raises an alarm on the unchanged tree counts as broken).
THOROUGH_VERIFIED = {"C10", "C12", "C13", "C14", "C15", "C17", "C18", "C19"}
