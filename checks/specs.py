"""Registry: property id -> Spec."""
from checks.parse_spec import C01, C02, C04, C05
from checks.scan_spec import C07

SPECS = {}
for _s in (C01(), C02(), C04(), C05(), C07()):
    SPECS[_s.prop] = _s
