"""C17: precedence of configuration layers and validity/fallback of rule settings.
Real code executed: ApplicationConfigurationHelper.apply_configuration_layers,
ApplicationProperties, PluginManager.initialize/apply_configuration, the rule's
initialize_from_config/query_config.  Stubs: the file loaders (DESIGN 2.3)."""
import argparse

from engine import env
from engine.driver import SKIP, Raised
from engine.env import NoTracing, Pres

from application_properties import (
    ApplicationProperties,
    ApplicationPropertiesJsonLoader,
    ApplicationPropertiesTomlLoader,
    ApplicationPropertiesUtilities,
    ApplicationPropertiesYamlLoader,
)
import pymarkdown.application_configuration_helper as ACH
from pymarkdown.application_configuration_helper import ApplicationConfigurationHelper
from pymarkdown.plugin_manager.plugin_manager import PluginManager

# ------------------------------------------------------------ loader stubs
LAYERS = {"pyproject": None, "default": None, "config": None}


def _apply(props, content, clear_property_map=True):
    """loader contract: absent file -> (False, False), nothing touched; present -> the parsed
    content is loaded with load_from_dict(content, clear_map=clear_property_map)"""
    if content is None:
        return False, False
    props.load_from_dict(content, clear_map=clear_property_map)
    return True, False


def _std_files(properties, handle_error_fn=None):
    _apply(properties, LAYERS["pyproject"], False)


def _json_load_and_set(properties, file_name, handle_error_fn=None, clear_property_map=True, check_for_file_presence=True, load_as_json5_file=False):
    if file_name.endswith(".pymarkdown"):
        return _apply(properties, LAYERS["default"], clear_property_map)
    return _apply(properties, LAYERS["config"], clear_property_map)


def _absent(properties, file_name, *a, **k):
    return False, False


class _CfgFile:
    def __enter__(self):
        import io

        return io.StringIO("{}")

    def __exit__(self, *a):
        return False


def _open(path, *a, **k):
    if path == "/vfs/config.json":
        if a and "b" in a[0]:
            import io

            return io.BytesIO(b"{}")
        return _CfgFile()
    return open(path, *a, **k)


class _OsPath:
    def __getattr__(self, n):
        import os

        return getattr(os.path, n)

    def isfile(self, p):
        import os

        return True if p == "/vfs/config.json" else os.path.isfile(p)


class _Os:
    path = _OsPath()

    def __getattr__(self, n):
        import os

        return getattr(os, n)


_installed = False


def install():
    global _installed
    if _installed:
        return
    _installed = True
    ApplicationPropertiesUtilities.process_standard_python_configuration_files = staticmethod(_std_files)
    ApplicationPropertiesJsonLoader.load_and_set = staticmethod(_json_load_and_set)
    ApplicationPropertiesYamlLoader.load_and_set = staticmethod(_absent)
    ApplicationPropertiesTomlLoader.load_and_set = staticmethod(_absent)
    ACH.open = _open
    ACH.os = _Os()


def tri(present, value, name, extra=None):
    """layer content for `plugins.<name>.enabled` (+ optionally another rule's flag)"""
    if not present:
        return None
    d = {"plugins": {name: {"enabled": value}}}
    if extra is not None:
        d["plugins"][extra[0]] = {"enabled": extra[1]}
    return d


class EnabledHarness:
    """params: rule (id), name (identifier used throughout the configuration), default
    (bool: the rule's documented default)."""

    def __init__(self, params):
        self.p = params
        self.rule = params["rule"].upper()
        self.name = params["name"]
        self.default = bool(params["default"])
        install()

    def variables(self):
        v = []
        for layer in ("py", "df", "cf", "st"):
            v += [(f"{layer}_present", "bool"), (f"{layer}_value", "bool")]
        return v + [("cli_e", "bool"), ("cli_d", "bool"), ("cli_list", "bool"), ("py_other", "bool"), ("df_other_present", "bool"), ("df_other", "bool")]

    OTHER = "md047"  # a second rule mentioned only by some layers

    def body(self, v):
        LAYERS["pyproject"] = tri(v["py_present"], v["py_value"], self.name, (self.OTHER, v["py_other"]))
        LAYERS["default"] = tri(v["df_present"], v["df_value"], self.name, (self.OTHER, v["df_other"]) if v["df_other_present"] else None)
        LAYERS["config"] = tri(v["cf_present"], v["cf_value"], self.name)
        sets = None
        if v["st_present"]:
            sets = [f"plugins.{self.name}.enabled=$!" + ("True" if v["st_value"] else "False")]
        args = argparse.Namespace(configuration_file="/vfs/config.json" if v["cf_present"] else None,
                                  set_configuration=sets, strict_configuration=False)
        props = ApplicationProperties()
        errors = []
        ApplicationConfigurationHelper.apply_configuration_layers(args, props, lambda m, e=None: errors.append(m))
        pm = PluginManager(Pres())
        # cli_list: the identifier is the second element of a comma separated list, written with a blank after the comma
        cli_name = ("md998, " + self.name) if v["cli_list"] else self.name
        pm.initialize(env.plugin_dir(), [], cli_name if v["cli_e"] else "", cli_name if v["cli_d"] else "", props, False, False)
        pm.apply_configuration(props)
        enabled = False
        other = False
        for p in pm.enabled_plugins:
            if p.plugin_id.lower() == self.rule.lower():
                enabled = True
            if p.plugin_id.lower() == self.OTHER:
                other = True
        return (enabled, errors, other)

    def judge(self, obs, v):
        if isinstance(obs, Raised):
            return [{"kind": "exception", "detail": obs.describe()}]
        enabled, errors, other = obs
        # R-prec: most specific layer that mentions the rule
        if v["cli_d"]:
            want, why = False, "--disable-rules"
        elif v["cli_e"]:
            want, why = True, "--enable-rules"
        elif v["st_present"]:
            want, why = v["st_value"], "--set"
        elif v["cf_present"]:
            want, why = v["cf_value"], "--config file"
        elif v["df_present"]:
            want, why = v["df_value"], "default configuration file"
        elif v["py_present"]:
            want, why = v["py_value"], "pyproject.toml"
        else:
            want, why = self.default, "rule default"
        if errors:
            return [{"kind": "configuration-error", "detail": {"errors": errors[:2]}}]
        if bool(enabled) != bool(want):
            return [{"kind": "precedence", "detail": {"enabled": bool(enabled), "expected": bool(want), "deciding_layer": why}}]
        # the second rule is mentioned only by the project file and (optionally) the default file
        if v["df_present"] and v["df_other_present"]:
            want_other = v["df_other"]
        elif v["py_present"]:
            want_other = v["py_other"]
        else:
            want_other = True  # MD047's default
        if self.rule.lower() != self.OTHER and bool(other) != bool(want_other):
            return [{"kind": "precedence-other-rule", "detail": {"rule": self.OTHER, "enabled": bool(other), "expected": bool(want_other)}}]
        return []

    def digest(self, obs, rv):
        if isinstance(obs, Raised):
            return "raised:" + obs.root_type
        return f"{obs[0]}:{sum(1 for k in rv if k.endswith('_present') and rv[k])}:{rv['cli_e']}:{rv['cli_d']}"


from checks.cfg_sym_table import ITEMS, effective_of, words_for  # noqa: E402


class SettingHarness:
    """params: item ('md013.line_length'), name (identifier used), kind: 'int'|'bool'|'str'
    = JSON type of the supplied value (symbolic).  strict is a symbolic Bool."""

    def __init__(self, params):
        self.p = params
        self.item = params["item"]
        self.rule, self.key = self.item.split(".")
        self.name = params.get("name") or self.rule
        self.kind = params["kind"]
        self.typ, self.default, self.valid = ITEMS[self.item]
        install()

    def variables(self):
        v = [("strict", "bool")]
        if self.kind == "int":
            v.append(("n", "int"))
        elif self.kind == "bool":
            v.append(("b", "bool"))
        else:
            v.append(("choice", "int"))
        return v

    def value(self, v):
        if self.kind == "int":
            return v["n"]
        if self.kind == "bool":
            return True if v["b"] else False
        # strings: each documented enum value, a wrong-case variant, an unknown word, empty
        words = words_for(self.item)
        c = v["choice"]
        if not (0 <= c < len(words)):
            return None
        i = 0
        while i < len(words) - 1 and not (c == i):
            i += 1
        return words[i]

    def body(self, v):
        val = self.value(v)
        if val is None:
            return SKIP
        props = ApplicationProperties()
        props.load_from_dict({"plugins": {self.name: {self.key: val}}}, clear_map=False)
        if v["strict"]:
            props.enable_strict_mode()
        pm = PluginManager(Pres())
        pm.initialize(env.plugin_dir(), [], "", "", props, False, False)
        try:
            pm.apply_configuration(props)
        except Exception as exc:  # noqa  (BadPluginError wrapping the ValueError)
            return ("config-error", val, repr(exc)[:160])
        eff = None
        for p in pm.enabled_plugins:
            if p.plugin_id.lower() == self.rule:
                for q in p.plugin_instance.query_config():
                    if q.name == self.key:
                        eff = q.value
        return ("ok", val, eff)

    def judge(self, obs, v):
        if isinstance(obs, Raised):
            return [{"kind": "exception", "detail": obs.describe()}]
        status, val, eff = obs
        strict = bool(v["strict"])
        right_type = {"int": self.typ == "int", "bool": self.typ == "bool", "str": self.typ == "enum"}[self.kind]
        if right_type:
            if self.typ == "enum":
                ok = any(val == w for w in self.valid)
            elif self.valid is not None:
                ok = self.valid(val)
            else:
                ok = True
        else:
            ok = False
        if ok:
            if status != "ok" or not (eff == effective_of(self.item, val)):
                return [{"kind": "valid-value-not-used", "detail": {"given": val, "status": status, "effective": eff}}]
        elif strict:
            if status != "config-error":
                return [{"kind": "invalid-value-accepted-in-strict-mode", "detail": {"given": val, "effective": eff}}]
        else:
            if status != "ok" or not (eff == self.default):
                return [{"kind": "invalid-value-not-replaced-by-default", "detail": {"given": val, "status": status, "effective": eff, "default": self.default}}]
        return []

    def digest(self, obs, rv):
        if isinstance(obs, Raised):
            return "raised:" + obs.root_type
        with NoTracing():
            return f"{obs[0]}:{rv.get('strict')}:{env.deep_realize(obs[2]) == self.default if obs[0] == 'ok' else '-'}"


HARNESSES = {"enabled": EnabledHarness, "setting": SettingHarness}
