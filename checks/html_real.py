"""Concrete replay of C03 candidates."""
import os
import sys

VERIF = os.path.dirname(os.path.dirname(os.path.abspath(__file__)))


def doc_of(case):
    sk = case["params"]["skeleton"]
    out = list(sk)
    for k, h in enumerate(case["params"]["holes"]):
        out[h] = chr(case["vars"][f"c{k}"])
    return "".join(out)


def norm(html):
    while " \n" in html:  # spaces before a line ending inside text are insignificant
        html = html.replace(" \n", "\n")
    html = html.replace(">\n<", "><")
    if html.endswith("\n"):
        html = html[:-1]
    return html


_MD = None


def replay(case):
    global _MD
    from checks.parse_real import _site, tokenizer
    from pymarkdown.transform_gfm.transform_to_gfm import TransformToGfm

    if _MD is None:
        sys.path.insert(0, os.path.join(VERIF, "vendor"))
        from markdown_it import MarkdownIt

        _MD = MarkdownIt("commonmark")
    doc = doc_of(case)
    obs = {"doc": doc}
    try:
        toks = tokenizer().transform(doc, show_debug=False)
        g = TransformToGfm().transform(toks)
    except Exception as exc:  # noqa
        obs["exception"] = _site(exc)
        return {"violates": False, "observed": obs}
    import re

    from checks.html_refdev import reference_deviates

    if reference_deviates(doc):
        return {"violates": False, "observed": dict(obs, note="reference-side deviation from the specification")}
    if re.search(r"(?m)^ {0,3}(`{3,}|~{3,})[ \t]*\t[ \t]*$", doc):
        return {"violates": False, "observed": dict(obs, note="closing fence followed by TAB: 0.29/0.31 difference")}
    m = _MD.render(doc if doc.endswith("\n") else doc + "\n")
    obs["pymarkdown"] = g
    obs["reference"] = m
    return {"violates": norm(g) != norm(m), "observed": obs}
