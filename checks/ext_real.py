"""Concrete replay of C20 on the unmodified parser."""
EXT = ["front-matter", "linter-pragmas", "markdown-disallow-raw-html", "markdown-extended-autolinks", "markdown-strikethrough", "markdown-task-list-items"]
_TOKS = {}


def tokenizer_for(subset):
    from application_properties import ApplicationProperties
    from pymarkdown.extension_manager.extension_manager import ExtensionManager
    from pymarkdown.general.main_presentation import MainPresentation
    from pymarkdown.general.tokenized_markdown import TokenizedMarkdown

    key = ",".join(sorted(subset))
    if key not in _TOKS:
        props = ApplicationProperties()
        props.load_from_dict({"extensions": {e: {"enabled": (e in subset)} for e in EXT}})
        em = ExtensionManager(MainPresentation())
        em.initialize(None, props)
        em.apply_configuration()
        t = TokenizedMarkdown()
        t.apply_configuration(props, em)
        _TOKS[key] = t
    return _TOKS[key]


def triggers(ext, d):
    if ext == "markdown-strikethrough":
        return "~" in d
    if ext == "markdown-task-list-items":
        return "[" in d
    if ext == "markdown-extended-autolinks":
        return ":" in d or "@" in d or ("." in d and ("w" in d or "W" in d))
    if ext == "markdown-disallow-raw-html":
        return "<" in d
    if ext == "front-matter":
        return d.startswith("---")
    if ext == "linter-pragmas":
        return "<!--" in d
    raise ValueError(ext)


def doc_of(case):
    out = list(case["params"]["skeleton"])
    for k, h in enumerate(case["params"]["holes"]):
        out[h] = chr(case["vars"][f"c{k}"])
    return "".join(out)


def replay(case):
    from pymarkdown.transform_gfm.transform_to_gfm import TransformToGfm

    p = case["params"]
    d = doc_of(case)
    obs = {"doc": d}
    if case["harness"] == "frontmatter":
        t = tokenizer_for(["front-matter"])
        block = p["block"]
        shift = block.count("\n")
        try:
            tf = t.transform(block + d, show_debug=False)
            tr = t.transform(d, show_debug=False)
        except Exception as e:  # noqa
            return {"violates": False, "observed": dict(obs, error=repr(e)[:100])}
        if triggers("front-matter", d):
            return {"violates": False, "observed": obs}
        v = []
        if not tf or tf[0].token_name != "front-matter":
            v.append({"kind": "no-front-matter-token"})
        else:
            body = tf[1:]
            if len(body) != len(tr):
                v.append({"kind": "front-matter-changes-parse", "detail": {"with": [str(x) for x in body], "rest_alone": [str(x) for x in tr]}})
            else:
                for x, y in zip(body, tr):
                    if x.token_name != y.token_name:
                        v.append({"kind": "front-matter-changes-parse", "detail": {"with": str(x), "rest_alone": str(y)}})
                        break
                    if (x.line_number or y.line_number) and (x.line_number != y.line_number + shift or x.column_number != y.column_number):
                        v.append({"kind": "front-matter-shift-wrong", "detail": {"token": str(x), "rest_alone": str(y)}})
                        break
                    sx = str(x).replace(f"({x.line_number},{x.column_number})", "(L,C)", 1)
                    sy = str(y).replace(f"({y.line_number},{y.column_number})", "(L,C)", 1)
                    if x.token_name != "setext" and sx != sy:
                        v.append({"kind": "front-matter-changes-token", "detail": {"with": str(x), "rest_alone": str(y)}})
                        break
        obs["violations"] = v
        return {"violates": bool(v), "observed": obs}
    subset = p["subset"]
    try:
        ts = tokenizer_for(subset).transform(d, show_debug=False)
        t0 = tokenizer_for([]).transform(d, show_debug=False)
    except Exception as e:  # noqa
        return {"violates": False, "observed": dict(obs, error=repr(e)[:100])}
    if any(triggers(e, d) for e in subset):
        return {"violates": False, "observed": obs}
    a, b = [str(t) for t in ts], [str(t) for t in t0]
    v = []
    if a != b:
        v.append({"kind": "tokens-differ-without-trigger", "detail": {"enabled": subset, "with": a, "without": b}})
    elif TransformToGfm().transform(ts) != TransformToGfm().transform(t0):
        v.append({"kind": "html-differs-without-trigger", "detail": {"enabled": subset}})
    obs["violations"] = v
    return {"violates": bool(v), "observed": obs}
