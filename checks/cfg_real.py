"""Concrete replay of C17 candidates/witnesses: real configuration files in a real working
directory, real loaders, observed through `plugins list` / `plugins info`."""
import json
import os
import re
import shutil
import tempfile


def _run(argv, cwd):
    from checks.app_real import _collecting_presentation
    from pymarkdown.main import PyMarkdownLint

    pres = _collecting_presentation()
    old = os.getcwd()
    os.chdir(cwd)
    code = None
    try:
        PyMarkdownLint(presentation=pres, inherit_logging=True).main(argv)
    except SystemExit as e:
        code = e.code
    finally:
        os.chdir(old)
    return code, pres.out, pres.err


def _toml_value(v):
    if isinstance(v, bool):
        return "true" if v else "false"
    if isinstance(v, int):
        return str(v)
    return json.dumps(v)


def replay_enabled(case):
    p, v = case["params"], case["vars"]
    name, rule, default = p["name"], p["rule"].lower(), bool(p["default"])
    d = tempfile.mkdtemp(prefix="vp-cfg-")
    try:
        argv = []
        OTHER = "md047"
        if v["py_present"]:
            open(os.path.join(d, "pyproject.toml"), "w").write(f"[tool.pymarkdown]\nplugins.{name}.enabled = {_toml_value(bool(v['py_value']))}\nplugins.{OTHER}.enabled = {_toml_value(bool(v.get('py_other', True)))}\n")
        if v["df_present"]:
            dd = {"plugins": {name: {"enabled": bool(v["df_value"])}}}
            if v.get("df_other_present"):
                dd["plugins"][OTHER] = {"enabled": bool(v["df_other"])}
            json.dump(dd, open(os.path.join(d, ".pymarkdown"), "w"))
        if v["cf_present"]:
            cf = os.path.join(d, "config.json")
            json.dump({"plugins": {name: {"enabled": bool(v["cf_value"])}}}, open(cf, "w"))
            argv += ["--config", cf]
        if v["st_present"]:
            argv += ["-s", f"plugins.{name}.enabled=$!" + ("True" if v["st_value"] else "False")]
        cli_name = ("md998, " + name) if v.get("cli_list") else name
        if v["cli_e"]:
            argv += ["-e", cli_name]
        if v["cli_d"]:
            argv += ["-d", cli_name]
        code, out, err = _run(argv + ["plugins", "list"], d)
    finally:
        shutil.rmtree(d, ignore_errors=True)
    text = "\n".join(out)
    m = re.search(r"^\s*" + re.escape(rule) + r"\s+.*?\s(True|False)\s+(True|False)\s+\d", text, re.M)
    obs = {"argv": argv, "code": code, "err": err[:2]}
    if not m:
        obs["row"] = None
        return {"violates": True, "observed": dict(obs, violations=[{"kind": "rule-not-listed"}])}
    current = m.group(2) == "True"
    if v["cli_d"]:
        want = False
    elif v["cli_e"]:
        want = True
    elif v["st_present"]:
        want = bool(v["st_value"])
    elif v["cf_present"]:
        want = bool(v["cf_value"])
    elif v["df_present"]:
        want = bool(v["df_value"])
    elif v["py_present"]:
        want = bool(v["py_value"])
    else:
        want = default
    obs.update(enabled=current, expected=want, default_column=m.group(1))
    viol = []
    if current != want:
        viol.append({"kind": "precedence", "detail": {"enabled": current, "expected": want}})
    if (m.group(1) == "True") != default:
        viol.append({"kind": "default-column", "detail": {"listed": m.group(1), "documented": default}})
    mo = re.search(r"^\s*md047\s+.*?\s(True|False)\s+(True|False)\s+\d", text, re.M)
    if mo and rule != "md047" and "py_other" in v:
        if v["df_present"] and v.get("df_other_present"):
            want_other = bool(v["df_other"])
        elif v["py_present"]:
            want_other = bool(v["py_other"])
        else:
            want_other = True
        if (mo.group(2) == "True") != want_other:
            viol.append({"kind": "precedence-other-rule", "detail": {"rule": "md047", "enabled": mo.group(2) == "True", "expected": want_other}})
    obs["violations"] = viol
    return {"violates": bool(viol), "observed": obs}


def replay_setting(case):
    from checks.cfg_sym_table import ITEMS, effective_of, value_of

    p, v = case["params"], case["vars"]
    item = p["item"]
    rule, key = item.split(".")
    name = p.get("name") or rule
    typ, default, valid = ITEMS[item]
    val = value_of(p, v)
    strict = bool(v["strict"])
    d = tempfile.mkdtemp(prefix="vp-cfg-")
    try:
        cf = os.path.join(d, "config.json")
        json.dump({"plugins": {name: {key: val}}}, open(cf, "w"))
        argv = ["--config", cf] + (["--strict-config"] if strict else []) + ["plugins", "info", rule]
        code, out, err = _run(argv, d)
    finally:
        shutil.rmtree(d, ignore_errors=True)
    text = "\n".join(out)
    m = re.search(r"^\s*" + re.escape(key) + r"\s+(integer|boolean|string)\s+(.*?)\s*$", text, re.M)
    eff = None
    if m:
        raw = m.group(2)
        eff = int(raw) if m.group(1) == "integer" else (raw == "True" if m.group(1) == "boolean" else raw.strip('"'))
    right_type = (typ == "int" and isinstance(val, int) and not isinstance(val, bool)) or (typ == "bool" and isinstance(val, bool)) or (typ == "enum" and isinstance(val, str))
    ok = right_type and (val in valid if typ == "enum" else (valid(val) if valid else True))
    status = "ok" if (code == 0 and not err) else "config-error"
    viol = []
    if ok:
        if status != "ok" or eff != effective_of(item, val):
            viol.append({"kind": "valid-value-not-used", "detail": {"given": val, "status": status, "effective": eff}})
    elif strict:
        if status != "config-error":
            viol.append({"kind": "invalid-value-accepted-in-strict-mode", "detail": {"given": val, "effective": eff}})
    else:
        if status != "ok" or eff != default:
            viol.append({"kind": "invalid-value-not-replaced-by-default", "detail": {"given": val, "status": status, "effective": eff, "default": default}})
    return {"violates": bool(viol), "observed": {"argv": argv[2:], "value": val, "code": code, "err": err[:1], "effective": eff, "violations": viol}}


def replay(case):
    if case["harness"] == "enabled" or "rule" in case["params"]:
        return replay_enabled(case)
    return replay_setting(case)
