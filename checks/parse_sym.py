"""Symbolic harness for the parser family: C01 (total), C02 (lossless), C04 (well-formed),
C05 (positions).  One exploration, assertion selected by params['prop']."""
from engine import docs, env
from engine.driver import SKIP, Raised
from engine.env import NoTracing, build_cells, sym_doc, valid_cell
from engine.oracles import rpos, rstack

from pymarkdown.general.tokenized_markdown import TokenizedMarkdown
from pymarkdown.transform_markdown.transform_to_markdown import TransformToMarkdown

_TOK = None
_ITER = [0]


def _tokenizer():
    global _TOK
    if _TOK is None:
        _TOK = env.make_tokenizer()
        name = "_TokenizedMarkdown__parse_blocks_pass_next_line"
        orig = getattr(TokenizedMarkdown, name, None)
        if orig is not None:

            def counted(self, *a, **k):
                _ITER[0] += 1
                return orig(self, *a, **k)

            setattr(TokenizedMarkdown, name, counted)
    return _TOK


class Obs:
    __slots__ = ("doc", "tokens", "regen", "regen_exc", "iters")


class ParseHarness:
    """params: prop in C01|C02|C04|C05; skeleton: str; holes: [int] (cells replace those
    positions).  All cells range over every Unicode scalar value except NUL and CR."""

    def __init__(self, params):
        self.p = params
        self.prop = params["prop"]
        self.skeleton = params["skeleton"]
        self.holes = list(params["holes"])
        self.tok = _tokenizer()

    restrict_domain = True

    def variables(self):
        return [(f"c{i}", "int") for i in range(len(self.holes))]

    def doc(self, v):
        cells = [v[f"c{i}"] for i in range(len(self.holes))]
        if self.p.get("alphabet"):
            for c in cells:
                if not docs.in_alphabet(c, self.p["alphabet"]):
                    return None
            # tiny alphabet: let the solver enumerate it now (cheaper than carrying the cells
            # through CrossHair's Unicode tables; same policy as DESIGN 2.7)
            cells = [env.realize(c) for c in cells]
        for c in cells:
            if not valid_cell(c):
                return None
        if self.p.get("domain") == "finite":
            for c in cells:
                if not docs.in_finite(c):
                    return None
            # hashing site ahead (DESIGN 2.7): let the solver enumerate the finite alphabet now
            cells = [env.realize(c) for c in cells]
        for i, k in enumerate(self.p.get("classes") or []):
            if not docs.in_class(cells[i], k):
                return None
        return sym_doc(build_cells(self.skeleton, self.holes, cells))

    def body(self, v):
        d = self.doc(v)
        if d is None:
            return SKIP
        o = Obs()
        o.doc = d
        _ITER[0] = 0
        o.tokens = self.tok.transform(d, show_debug=False)
        o.iters = _ITER[0]
        o.regen = None
        o.regen_exc = None
        if self.prop == "C02":
            try:
                o.regen = TransformToMarkdown().transform(o.tokens)
            except Exception as exc:  # noqa
                o.regen_exc = Raised(exc)
        return o

    def judge(self, obs, v):
        if isinstance(obs, Raised):
            if self.prop == "C01":
                return [{"kind": "exception", "detail": obs.describe()}]
            return []  # other properties quantify over documents that parse (C01's finding)
        out = []
        if self.prop == "C01":
            nlines = len(self.skeleton.split("\n")) + len(self.holes)
            bound = 2 * (nlines + 1) * (nlines + 1) + 4
            if obs.iters > bound:
                out.append({"kind": "work", "detail": {"iterations": obs.iters, "bound": bound}})
        elif self.prop == "C02":
            if obs.regen_exc is not None:
                if env_intolerant(obs.regen_exc):
                    raise env.CrosshairUnsupported("proxy intolerance in regenerator")
                out.append({"kind": "regen-exception", "detail": obs.regen_exc.describe()})
            elif not (obs.regen == obs.doc):  # symbolic equality, decided by z3 (forks)
                out.append({"kind": "roundtrip", "detail": {"regen": obs.regen}})
        elif self.prop == "C04":
            why = rstack.check(obs.tokens)
            if why:
                out.append({"kind": "illformed", "detail": {"why": why}})
        elif self.prop == "C05":
            for why in rpos.check(obs.doc, obs.tokens):
                out.append({"kind": "position", "detail": why})
        return out

    def digest(self, obs, rv):
        if isinstance(obs, Raised):
            return "raised:" + obs.root_type + "@" + obs.site
        with NoTracing():
            return " ".join(t.token_name for t in obs.tokens)


def env_intolerant(raised):
    from engine.driver import _intolerant

    return _intolerant(raised.exc)


HARNESSES = {"parse": ParseHarness}
