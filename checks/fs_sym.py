"""C19: file discovery on a symbolic directory tree against the reference model R-fs."""
from engine import env
from engine.driver import SKIP, Raised
from engine.env import NoTracing, build_cells, sym_doc

import pymarkdown.application_file_scanner as AFS
from pymarkdown.application_file_scanner import ApplicationFileScanner

from checks.fs_model import TREE, children, kind_of, r_fs, seg_match  # noqa: E402,F401


class _Path:
    sep = "/"

    def __getattr__(self, n):
        import os

        return getattr(os.path, n)

    @staticmethod
    def exists(p):
        return kind_of(p) is not None

    @staticmethod
    def isdir(p):
        return kind_of(p) == "d"

    @staticmethod
    def isfile(p):
        return kind_of(p) == "f"


class _Os:
    path = _Path()
    sep = "/"
    altsep = None

    def __getattr__(self, n):
        import os

        return getattr(os, n)

    @staticmethod
    def walk(top):
        stack = [top]
        while stack:
            cur = stack.pop(0)
            dirs, files = children(cur)
            yield cur, dirs, files
            stack = [cur + "/" + d for d in dirs] + stack


class LiteralPathGlobbed(Exception):
    """glob.glob was called for a path without '*' or '?': the user guide says such an
    argument is the literal name of a file"""


class _Glob:
    def __getattr__(self, n):
        import glob as _g

        return getattr(_g, n)

    @staticmethod
    def glob(pattern):
        # (a pattern without '*' / '?' reaches glob only if the caller treats '[' as magic; the
        # stub then answers as the real glob would, and the result is compared with R-fs)
        idx = pattern.rfind("/")
        base, last = pattern[:idx], pattern[idx + 1:]
        if "*" in base or "?" in base:
            raise NotImplementedError("stub: wildcards only in the last path segment")
        if kind_of(base) != "d":
            return []
        dirs, files = children(base)
        return [base + "/" + n for n in sorted(dirs + files) if seg_match(last, n)]


_installed = False


def install():
    global _installed
    if not _installed:
        _installed = True
        AFS.os = _Os()
        AFS.glob = _Glob()


class FsHarness:
    """params: names: [skeleton names of the two files in /d, '?' = symbolic cell],
    args: [argument skeletons], exts: '.md' | '.md,.txt' ; recurse is a symbolic Bool."""

    def __init__(self, params):
        self.p = params
        self.names = params["names"]
        self.args = params["args"]
        self.exts = params.get("exts", ".md")
        self.nn = sum(n.count("?") for n in self.names)
        self.na = sum(a.count("\x00") for a in self.args)
        install()

    def variables(self):
        return [(f"c{i}", "int") for i in range(self.nn + self.na)] + [("recurse", "bool")]

    def _fill(self, sk, cells, hole):
        out = []
        for ch in sk:
            out.append(cells.pop(0) if ch == hole else ord(ch))
        return sym_doc(out)

    def build(self, v):
        cells = [v[f"c{i}"] for i in range(self.nn + self.na)]
        for c in cells:
            if not (0 < c < 0x110000) or c == 47 or (0xD800 <= c <= 0xDFFF):
                return None
        self._bracket_with_wildcard = False
        pool = list(cells)
        names = [self._fill(n, pool, "?") for n in self.names]
        args = [self._fill(a, pool, "\x00") for a in self.args]
        if names[0] == names[1]:
            return None
        for n in names:
            if n == "s" or n == "." or n == "..":
                return None
        return names, args

    def body(self, v):
        b = self.build(v)
        if b is None:
            return SKIP
        names, args = b
        del TREE[:]
        TREE.extend([("/d", "d"), ("/d/" + names[0], "f"), ("/d/" + names[1], "f"), ("/d/s", "d"), ("/d/s/c.md", "f"), ("/d/s/e.txt", "f"), ("/d/s/t", "d"), ("/d/s/t/g.md", "f")])
        recurse = True if v["recurse"] else False
        out, err = [], []
        got = ApplicationFileScanner.determine_files_to_scan(list(args), recurse, self.exts, False, out.append, err.append)
        out2, err2 = [], []
        got_rev = ApplicationFileScanner.determine_files_to_scan(list(reversed(args)), recurse, self.exts, False, out2.append, err2.append)
        outl, errl = [], []
        listed = ApplicationFileScanner.determine_files_to_scan(list(args), recurse, self.exts, True, outl.append, errl.append)
        want = r_fs(args, recurse, self.exts.split(","))
        return (got, got_rev, listed, outl, want, names, args, recurse)

    def judge(self, obs, v):
        if isinstance(obs, Raised):
            if obs.root_type == "NotImplementedError":
                raise env.CrosshairUnsupported("glob stub contract")
            if obs.root_type == "LiteralPathGlobbed":
                return [{"kind": "literal-path-globbed", "detail": obs.describe()}]
            return [{"kind": "exception", "detail": obs.describe()}]
        got, got_rev, listed, outl, want, names, args, recurse = obs
        files, did_err, _ = got
        wfiles, werr = want
        out = []
        if bool(did_err) != bool(werr):
            out.append({"kind": "error-flag", "detail": {"got": bool(did_err), "expected": bool(werr), "files": files}})
        elif not werr:
            if not (list(files) == list(wfiles)):
                out.append({"kind": "file-set", "detail": {"got": list(files), "expected": list(wfiles)}})
            rfiles, rerr, _ = got_rev
            if not (list(rfiles) == list(files)) or bool(rerr) != bool(did_err):
                out.append({"kind": "order-dependent", "detail": {"forward": list(files), "reversed": list(rfiles)}})
            lfiles, lerr, only = listed
            text = "\n".join(files)
            if files and not (outl == [text]):
                out.append({"kind": "list-files-output", "detail": {"printed": outl, "expected": text}})
        return out

    def digest(self, obs, rv):
        if isinstance(obs, Raised):
            return "raised:" + obs.root_type
        with NoTracing():
            files, did_err, _ = obs[0]
            return f"{did_err}:{len(files)}:{rv.get('recurse')}"


HARNESSES = {"fs": FsHarness}
