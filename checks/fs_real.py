"""Concrete replay of C19: a real directory tree, the real os.walk / glob, the real
application (`scan --list-files`) against R-fs evaluated on the same tree."""
import os
import shutil
import tempfile

from checks import fs_model


def _fill(sk, cells, hole):
    out = []
    for ch in sk:
        out.append(chr(cells.pop(0)) if ch == hole else ch)
    return "".join(out)


def replay(case):
    from checks.app_real import _collecting_presentation
    from pymarkdown.application_file_scanner import ApplicationFileScanner
    from pymarkdown.main import PyMarkdownLint

    p, v = case["params"], case["vars"]
    nn = sum(n.count("?") for n in p["names"])
    na = sum(a.count("\x00") for a in p["args"])
    cells = [v[f"c{i}"] for i in range(nn + na)]
    names = [_fill(n, cells, "?") for n in p["names"]]
    args = [_fill(a, cells, "\x00") for a in p["args"]]
    recurse = bool(v["recurse"])
    exts = p.get("exts", ".md")
    root = tempfile.mkdtemp(prefix="vp-fs-")
    obs = {"names": names, "args": args, "recurse": recurse}
    try:
        tree = [("/d", "d"), ("/d/" + names[0], "f"), ("/d/" + names[1], "f"), ("/d/s", "d"), ("/d/s/c.md", "f"), ("/d/s/e.txt", "f"), ("/d/s/t", "d"), ("/d/s/t/g.md", "f")]
        try:
            for path, k in tree:
                real = root + path
                if k == "d":
                    os.makedirs(real, exist_ok=True)
                else:
                    open(real, "w").write("# x\n")
        except (OSError, ValueError) as e:
            obs["unrepresentable"] = repr(e)[:100]
            return {"violates": False, "observed": obs}
        rargs = [root + a for a in args]
        out, err = [], []
        files, did_err, _ = ApplicationFileScanner.determine_files_to_scan(list(rargs), recurse, exts, False, out.append, err.append)
        rfiles, rerr, _ = ApplicationFileScanner.determine_files_to_scan(list(reversed(rargs)), recurse, exts, False, [].append, [].append)
        pres = _collecting_presentation()
        code = None
        try:
            PyMarkdownLint(presentation=pres, inherit_logging=True).main((["--" if False else "scan", "-l"]) + (["-r"] if recurse else []) + (["-ae", exts] if exts != ".md" else []) + rargs)
        except SystemExit as e:
            code = e.code
        del fs_model.TREE[:]
        fs_model.TREE.extend((root + a, k) for a, k in tree)
        fs_model.TREE.append((root, "d"))
        wfiles, werr = fs_model.r_fs(rargs, recurse, exts.split(","))
        viol = []
        strip = lambda xs: [x[len(root):] for x in xs]
        if bool(did_err) != bool(werr):
            viol.append({"kind": "error-flag", "detail": {"got": bool(did_err), "expected": bool(werr)}})
        elif not werr:
            if list(files) != list(wfiles):
                viol.append({"kind": "file-set", "detail": {"got": strip(files), "expected": strip(wfiles)}})
            if list(rfiles) != list(files):
                viol.append({"kind": "order-dependent", "detail": {"forward": strip(files), "reversed": strip(rfiles)}})
            listed = "\n".join(pres.out)
            if files and listed != "\n".join(files):
                viol.append({"kind": "list-files-output", "detail": {"printed": listed.replace(root, ""), "expected": strip(files)}})
            want_code = 0 if files else 1
            if code != want_code:
                viol.append({"kind": "list-files-exit-code", "detail": {"code": code, "expected": want_code}})
        # (exit code of --list-files after a path error is C18's subject: KF-C18-list-files-masks-path-error)
        obs.update(files=strip(files), error=bool(did_err), code=code, violations=viol)
        return {"violates": bool(viol), "observed": obs}
    finally:
        shutil.rmtree(root, ignore_errors=True)
