"""Concrete replay of C06 on the unmodified application (real file, --set arguments)."""
import os
import sys

VERIF = os.path.dirname(os.path.dirname(os.path.abspath(__file__)))
_MD = None


def doc_of(case):
    if case["params"].get("template"):
        from checks.scan_real import doc_of as d2

        return d2(case)
    out = list(case["params"]["skeleton"])
    for k, h in enumerate(case["params"]["holes"]):
        out[h] = chr(case["vars"][f"c{k}"])
    return "".join(out)


def replay(case):
    global _MD
    from checks.app_real import Sandbox, real_main, rule_args
    from checks.html_real import norm
    from checks.parse_real import tokenizer
    from engine.oracles import rrule
    from pymarkdown.transform_gfm.transform_to_gfm import TransformToGfm

    if _MD is None:
        sys.path.insert(0, os.path.join(VERIF, "vendor"))
        from markdown_it import MarkdownIt

        _MD = MarkdownIt("commonmark")
    p, v = case["params"], case["vars"]
    rule = p["rule"]
    d = doc_of(case)
    obs = {"doc": d}
    try:
        g = TransformToGfm().transform(tokenizer().transform(d, show_debug=False))
    except Exception:  # noqa
        return {"violates": False, "observed": dict(obs, note="does not parse")}
    if norm(g) != norm(_MD.render(d)):
        return {"violates": False, "observed": dict(obs, note="C03 precondition false")}
    mtoks = _MD.parse(d)
    code, has_container, has_html = rrule.structure(mtoks)
    rid = "md013" if rule == "md013x" else rule
    sets = []
    if rule == "md009":
        cfg = {"br_spaces": v["br"], "strict": bool(v["strict"])}
    elif rule == "md012":
        cfg = {"maximum": v["maximum"]}
    elif rule == "md013":
        n = v["limit"]
        cfg = {"line_length": n, "heading_line_length": n, "code_block_line_length": n, "strict": bool(v["strict"])}
    elif rule in ("md025", "md041"):
        cfg = {"level": v["level"]}
    elif rule == "md013x":
        cfg = {"line_length": v["limit"], "heading_line_length": v["hlimit"], "code_block_line_length": v["climit"], "code_blocks": bool(v["code_blocks"]), "headings": bool(v["headings"])}
    else:
        cfg = {}
    for k, val in cfg.items():
        sets += ["-s", f"plugins.{rid}.{k}=" + (("$!" + str(val)) if isinstance(val, bool) else ("$#" + str(val)))]
    with Sandbox() as sb:
        sb.write("/vfs/f.md", d)
        o = real_main(sb, sets + rule_args("only:" + rid) + ["scan", "/vfs/f.md"])
    if any("Error" in e for e in o["err"]):
        return {"violates": False, "observed": dict(obs, err=o["err"][:1])}
    got = sorted({f[1] for f in o["fails"] if f[3].lower() == rid})
    lines = rrule.split_lines(d)
    if rule == "md009":
        want = rrule.md009(lines, code, cfg["br_spaces"], cfg["strict"])
    elif rule == "md010":
        want = rrule.md010(lines)
    elif rule == "md012":
        if has_container or has_html:
            return {"violates": False, "observed": dict(obs, note="containers/html: outside the MD012 oracle")}
        want = rrule.md012(lines, code, cfg["maximum"])
    elif rule == "md013":
        want = rrule.md013(lines, cfg["line_length"], cfg["strict"])
    elif rule == "md013x":
        if has_container or has_html:
            return {"violates": False, "observed": dict(obs, note="containers/html: outside the MD013 special-elements oracle")}
        want = rrule.md013x(lines, code, rrule.heading_lines(mtoks), (cfg["line_length"], cfg["heading_line_length"], cfg["code_block_line_length"]), cfg["code_blocks"], cfg["headings"], False)
    elif rule in ("md001", "md018", "md019", "md023", "md040", "md025", "md041"):
        if has_container or (has_html and rule == "md041"):
            return {"violates": False, "observed": dict(obs, note="containers/html: outside this oracle")}
        want = {"md001": lambda: rrule.md001(mtoks), "md018": lambda: rrule.md018(lines, mtoks), "md019": lambda: rrule.md019(lines, mtoks),
                "md023": lambda: rrule.md023(lines, mtoks), "md040": lambda: rrule.md040(mtoks), "md025": lambda: rrule.md025(mtoks, cfg["level"]),
                "md041": lambda: rrule.md041(lines, mtoks, cfg["level"])}[rule]()
        if want is None:
            return {"violates": False, "observed": dict(obs, note="outside this oracle")}
    elif rule == "md047":
        if not d:
            return {"violates": False, "observed": obs}
        want = rrule.md047(lines)
    else:
        raise ValueError(rule)
    viol = [] if got == want else [{"kind": "verdict-differs", "detail": {"rule": rule, "config": cfg, "reported_lines": got, "documented_lines": want}}]
    obs.update(config=cfg, reported=got, documented=want, violations=viol)
    return {"violates": bool(viol), "observed": obs}
