"""Spec of C20."""
import itertools
import json

from checks.parse_spec import _CUTS
from engine import docs
from engine.spec import Spec

EXT = ["front-matter", "linter-pragmas", "markdown-disallow-raw-html", "markdown-extended-autolinks", "markdown-strikethrough", "markdown-task-list-items"]
_FLAVOURED = ["~~a~~ b\n", "- [ ] x\n- [x] y\n", "www.a.b c\n", "<script>\n\nx\n</script>\n", "<!-- pyml disable-next-line md013-->\na\n", "a ~b~ <title> www\n", "- a\n  - b\n", "# a\n\nb\n", "a@b.c http://x.y\n"]


class C20(Spec):
    prop = "C20"
    sym_module = "checks.ext_sym"
    real_module = "checks.ext_real"
    cuts = _CUTS
    stubs = ["none (pure in-memory parse; one real ExtensionManager + TokenizedMarkdown per extension subset)"]
    rule_text = ("one symbolic path = one joint behaviour of the parser with extension subset S enabled and with every extension disabled, on the same symbolic document; assertion: if the document "
                 "contains no trigger syntax of any extension in S (a symbolic predicate on the cells) the serialised tokens and the HTML are identical; front matter: tokens == [front-matter] + tokens(rest) shifted by the block length; "
                 "distinct = distinct token-name sequences")
    assumptions = ["trigger predicates (checks/ext_sym.py: triggers) are deliberately coarse supersets of the extensions' syntax: '~'; '['; ':' or '@' or ('.' and 'w'/'W'); '<'; leading '---'; '<!--'",
                   "the clause 'disabled => plain CommonMark' is covered by comparing against the all-disabled parser here and by C03 for the all-disabled parser against the reference"]
    outside = ["documents beyond the stated skeletons / cells", "the markdown-tables and debug extensions (not among the six the property names)"]

    def shards(self, tier):
        out = []
        if tier == "quick":
            subsets = [[e] for e in EXT] + [EXT]
            pool = _FLAVOURED[:6]
            base = docs.g1_shards(1)
            stride = 3
        else:
            subsets = [list(c) for r in range(1, 7) for c in itertools.combinations(EXT, r)]
            pool = _FLAVOURED + docs.load_pool("mini")
            base = docs.g1_shards(2)
            stride = 1
        for S in subsets:
            for s in base:
                out.append(self.job("ext", dict(s, subset=S)))
            heavy = len(S) in (1, 6) or tier == "quick"
            if heavy:
                for i, s in enumerate(docs.g2_shards(pool, replace=True)):
                    if i % stride == 0:
                        out.append(self.job("ext", dict(s, subset=S)))
        blocks = ["---\nt: 1\n---\n"] if tier == "quick" else ["---\nt: 1\n---\n", "---\na: b\nc: d\n---\n"]
        rests = ["# a\n\nb\n", "- a\n  - b\n"] if tier == "quick" else docs.load_pool("mini")
        for block in blocks:
            for s in docs.g1_shards(1) + docs.g2_shards(rests, replace=True):
                out.append(self.job("frontmatter", dict(s, block=block)))
        return out

    def job(self, harness, params, budget=150.0):
        p = dict(params)
        p["prop"] = self.prop
        return {"harness": harness, "params": p, "per_path_timeout": 20.0, "budget_s": budget}

    def bounds_text(self, tier):
        if tier == "quick":
            return {"subsets": "each of the 6 extensions alone and all 6", "documents": "G1 length 0..1; 6 extension-flavoured skeletons, one symbolic cell at every third position", "front matter": "1 block x (G1 0..1 + 2 skeletons)"}
        return {"subsets": "all 63 non-empty subsets on G1 length 0..2; singletons and the full set on the flavoured + mini pool", "front matter": "2 blocks x mini pool"}

    def readable(self, case):
        from checks.ext_real import doc_of

        return json.dumps({"doc": doc_of(case), "subset": case["params"].get("subset"), "block": case["params"].get("block")}, ensure_ascii=True)

    def signature(self, case, rr):
        v = (rr.get("observed") or {}).get("violations") or []
        return v[0]["kind"] if v else case["kind"]
