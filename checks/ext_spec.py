"""Spec of C20."""
import itertools
import json

from checks.parse_spec import _CUTS
from engine import docs
from engine.spec import Spec

EXT = ["front-matter", "linter-pragmas", "markdown-disallow-raw-html", "markdown-extended-autolinks", "markdown-strikethrough", "markdown-task-list-items"]
_FLAVOURED = ["~~a~~ b\n", "- [ ] x\n- [x] y\n", "www.a.b c\n", "<script>\n\nx\n</script>\n", "<!-- pyml disable-next-line md013-->\na\n", "a ~b~ <title> www\n", "- a\n  - b\n", "# a\n\nb\n", "a@b.c http://x.y\n"]


class C20(Spec):
    prop = "C20"
    sym_module = "checks.ext_sym"
    real_module = "checks.ext_real"
    cuts = _CUTS
    stubs = ["none (pure in-memory parse; one real ExtensionManager + TokenizedMarkdown per extension subset)"]
    rule_text = ("one symbolic path = one joint behaviour of the parser with extension subset S enabled and with every extension disabled, on the same symbolic document; assertion: if the document "
                 "contains no trigger syntax of any extension in S (a symbolic predicate on the cells) the serialised tokens and the HTML are identical; front matter: tokens == [front-matter] + tokens(rest) shifted by the block length; "
                 "distinct = distinct token-name sequences")
    assumptions = ["trigger predicates (checks/ext_sym.py: triggers) are deliberately coarse supersets of the extensions' syntax: '~'; '['; ':' or '@' or ('.' and 'w'/'W'); '<'; leading '---'; '<!--'",
                   "the clause 'disabled => plain CommonMark' is covered by comparing against the all-disabled parser here and by C03 for the all-disabled parser against the reference"]
    outside = ["documents beyond the stated skeletons / cells", "the markdown-tables and debug extensions (not among the six the property names)"]

    def shards(self, tier):
        out = []
        flav = {"markdown-strikethrough": "~~a~~ b\n", "markdown-task-list-items": "- [ ] x\n- [x] y\n", "markdown-extended-autolinks": "www.a.b c\n",
                "markdown-disallow-raw-html": "<title>\n\nx <xmp> y\n", "linter-pragmas": "<!-- pyml disable-next-line md013-->\na\n", "front-matter": "---\nt: 1\n---\nb\n"}
        if tier == "quick":
            for e in EXT:
                others = [x for x in EXT if x != e]
                for s in docs.g1_shards(1):
                    out.append(self.job("ext", dict(s, subset=[e])))
                for i, s in enumerate(docs.g2_shards([flav[e]], replace=True)):
                    if i % 4 == 0:
                        out.append(self.job("ext", dict(s, subset=[e])))
                    if i % 4 == 2:
                        out.append(self.job("ext", dict(s, subset=others)))
            for s in docs.g1_shards(1) + [x for i, x in enumerate(docs.g2_shards(["- a\n  - b\n", "# a\n\nb *c*\n"], replace=True)) if i % 3 == 0]:
                out.append(self.job("ext", dict(s, subset=EXT)))
            blocks, rests = ["---\nt: 1\n---\n"], ["# a\n\nb\n"]
        else:
            subsets = [list(c) for r in range(1, 7) for c in itertools.combinations(EXT, r)]
            pool = list(flav.values()) + _FLAVOURED + docs.load_pool("mini")
            for S in subsets:
                for s in docs.g1_shards(1):
                    out.append(self.job("ext", dict(s, subset=S)))
                if len(S) in (1, 5, 6):
                    for i, s in enumerate(docs.g2_shards(pool, replace=True)):
                        if i % 5 == 0:
                            out.append(self.job("ext", dict(s, subset=S), budget=300.0))
            for s in docs.g1_shards(2):
                out.append(self.job("ext", dict(s, subset=EXT), budget=300.0))
            blocks, rests = ["---\nt: 1\n---\n", "---\na: b\nc: d\n---\n"], docs.load_pool("mini")
        for block in blocks:
            for s in docs.g1_shards(1) + docs.g2_shards(rests, replace=True):
                out.append(self.job("frontmatter", dict(s, block=block)))
        return out

    def job(self, harness, params, budget=100.0):
        p = dict(params)
        p["prop"] = self.prop
        return {"harness": harness, "params": p, "per_path_timeout": 20.0, "budget_s": budget}

    def bounds_text(self, tier):
        if tier == "quick":
            return {"subsets": "each extension alone, all but each extension, all 6", "documents": "G1 length 0..1; per extension a skeleton full of its syntax, one symbolic cell at every second position (alternating subsets)", "front matter": "1 block x (G1 0..1 + 1 skeleton)"}
        return {"subsets": "all 63 non-empty subsets on G1 length 0..2; singletons and the full set on the flavoured + mini pool", "front matter": "2 blocks x mini pool"}

    def readable(self, case):
        from checks.ext_real import doc_of

        return json.dumps({"doc": doc_of(case), "subset": case["params"].get("subset"), "block": case["params"].get("block")}, ensure_ascii=True)

    def signature(self, case, rr):
        v = (rr.get("observed") or {}).get("violations") or []
        return v[0]["kind"] if v else case["kind"]
