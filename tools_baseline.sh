#!/bin/bash
# Development aid: run the repository's test-suite (guard OFF) and compare with BASELINE.json stable_pass.
cd /repo && /venv/bin/python -m pytest -q -p no:cacheprovider --timeout=900 --continue-on-collection-errors -n ${N:-12} --junitxml=/tmp/vp-junit.xml >/tmp/vp-pytest.log 2>&1
/venv/bin/python - <<'P'
import json, xml.etree.ElementTree as ET
base=set(json.load(open('/root/.vp/BASELINE.json'))['stable_pass'])
ok=set()
for tc in ET.parse('/tmp/vp-junit.xml').getroot().iter('testcase'):
    name=tc.get('classname')+'::'+tc.get('name')
    if not any(c.tag in ('failure','error','skipped') for c in tc): ok.add(name)
missing=sorted(base-ok)
print("stable_pass", len(base), "passing now", len(ok), "missing", len(missing))
for m in missing[:20]: print("  MISSING", m)
P
