#!/bin/bash
# Development aid: confirm a seeded change in its scratch worktree:
#   tests pass with it, demo fails with it, demo passes without it; then store it under /verif/seeded/<name>/.
WT="$1"; NAME="$2"; PROP="$3"
cd "$WT" || exit 2
git diff -- pymarkdown > /tmp/confirm-$NAME.diff
[ -s /tmp/confirm-$NAME.diff ] || { echo "empty patch"; exit 2; }
T=$(/venv/bin/python -m pytest -q -p no:cacheprovider --timeout=900 -n 8 --deselect test/test_main_config.py::test_markdown_with_dash_e_single_by_id_and_bad_config_file 2>&1 | tail -1)
echo "tests with change: $T"
/venv/bin/python demo.py > /tmp/confirm-$NAME.with 2>&1; W=$?
git stash -q; /venv/bin/python demo.py > /tmp/confirm-$NAME.without 2>&1; WO=$?; git stash pop -q
echo "demo with change: exit $W ; without: exit $WO"
case "$T" in *passed*) ;; *) echo "TESTS NOT CLEAN"; exit 1;; esac
case "$T" in *failed*) echo "TESTS FAILED"; exit 1;; esac
[ "$W" = "1" ] && [ "$WO" = "0" ] || { echo "DEMO NOT DISCRIMINATING"; exit 1; }
mkdir -p /verif/seeded/$NAME
cp /tmp/confirm-$NAME.diff /verif/seeded/$NAME/patch.diff
cp demo.py /verif/seeded/$NAME/demo.py
echo "{\"property\": \"$PROP\", \"tests\": \"$T\", \"demo_with_change_exit\": $W, \"demo_without_change_exit\": $WO}" > /verif/seeded/$NAME/confirm.json
echo CONFIRMED
