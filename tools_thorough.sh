#!/bin/bash
# Development aid: run the thorough tier of the given checks on the unchanged tree (evidence kept apart).
cd /verif
mkdir -p /tmp/thorough
for c in "$@"; do
  /usr/bin/time -o /tmp/thorough/$c.time -f "%e" env VERIF_FORCE_THOROUGH=1 VERIF_EVIDENCE_DIR=/tmp/thorough/evidence VERIF_DUMP=/tmp/thorough/$c.dump ./check $c --tier thorough > /tmp/thorough/$c.log 2>&1
  echo "$c exit=$? $(cat /tmp/thorough/$c.time)s" >> /tmp/thorough/summary.txt
done
