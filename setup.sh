#!/bin/bash
# Offline build of the analysis environment: /verif/.venv = overlay on /venv + crosshair-tool.
set -e
cd "$(dirname "$0")"
if [ -x .venv/bin/python ] && .venv/bin/python -c 'import crosshair, z3, application_properties' 2>/dev/null; then
  echo "venv ok"; exit 0
fi
rm -rf .venv
/venv/bin/python -m venv .venv
SP=$(.venv/bin/python -c 'import sysconfig; print(sysconfig.get_paths()["purelib"])')
echo "import site; site.addsitedir('/venv/lib/python3.12/site-packages')" > "$SP/_overlay.pth"
PIP_NO_INDEX=1 .venv/bin/pip install -q --no-index --find-links /opt/veriftools/wheels crosshair-tool
.venv/bin/python -c 'import crosshair, z3, application_properties, pymarkdown; print("venv built", crosshair.__version__, z3.get_version_string())'
