"""Symbolic-execution environment: source loading, CrossHair patches, environment stubs.

Importing this module (in a worker process) installs the import hook, so it must be imported
before anything from pymarkdown.
"""
import argparse
import builtins
import os
import sys

REPO = os.environ.get("VERIF_REPO", "/repo")
VERIF = os.path.dirname(os.path.dirname(os.path.abspath(__file__)))

from engine import srcload  # noqa: E402

srcload.install(REPO)

import crosshair.core_and_libs  # noqa: E402,F401
import crosshair.core as _C  # noqa: E402
from crosshair.core import deep_realize, realize  # noqa: E402,F401
from crosshair.libimpl import builtinslib as _B  # noqa: E402
from crosshair.libimpl.builtinslib import LazyIntSymbolicStr  # noqa: E402
from crosshair.tracers import NoTracing, ResumedTracing, is_tracing  # noqa: E402,F401
from crosshair.util import CrosshairUnsupported  # noqa: E402,F401

# ------------------------------------------------------------------ format() patch (§2.2)
_orig_format = _C._PATCH_REGISTRATIONS[format]


def _format(obj, format_spec=""):
    with NoTracing():
        fs = format_spec
        if isinstance(fs, _B.AnySymbolicStr):
            fs = realize(fs)
        plain = (
            fs == ""
            and not isinstance(obj, _B.AnySymbolicStr)
            and type(obj).__module__.startswith("pymarkdown")
            and type(obj).__format__ is object.__format__
        )
    if plain:
        return _B._str(obj)
    return _orig_format(obj, format_spec)


_C._PATCH_REGISTRATIONS[format] = _format

# ------------------------------------------------------------------ code under analysis
from application_properties import ApplicationProperties  # noqa: E402
from pymarkdown.extension_manager.extension_manager import ExtensionManager  # noqa: E402
from pymarkdown.general.main_presentation import MainPresentation  # noqa: E402
from pymarkdown.general.parser_helper import ParserHelper  # noqa: E402
from pymarkdown.general.tokenized_markdown import TokenizedMarkdown  # noqa: E402

# log-formatting helpers get empty bodies (DESIGN §2.2, listed as a cut in evidence)
ParserHelper.make_value_visible = staticmethod(lambda v: "")
ParserHelper.make_whitespace_visible = staticmethod(lambda v: "")

CUTS = [
    "logging statements POGGER/LOGGER.<level>(...) removed after a syntactic purity screen",
    "ParserHelper.make_value_visible/make_whitespace_visible (log formatting) stubbed to ''",
    "format(obj,'') for pymarkdown objects without __format__ returns str(obj) (CPython object.__format__)",
]


def sym_doc(codepoints):
    """A str whose characters are the given ints / SymbolicInts (fixed length)."""
    cps = list(codepoints)
    if all(type(c) is int for c in cps):
        return "".join(map(chr, cps))
    with NoTracing():
        return LazyIntSymbolicStr(cps)


def valid_cell(c, allow_cr=False):
    """Traced precondition on a document cell: a Unicode scalar value, not NUL, not CR."""
    if not (0 < c < 0x110000):
        return False
    if (not allow_cr) and c == 13:
        return False
    if 0xD800 <= c <= 0xDFFF:
        return False
    return True


def build_cells(skeleton, holes, cells):
    """skeleton: str; holes: indices replaced by the symbolic ints in `cells`."""
    out = []
    k = 0
    hs = set(holes)
    for i, ch in enumerate(skeleton):
        if i in hs:
            out.append(cells[k])
            k += 1
        else:
            out.append(ord(ch))
    return out


# ------------------------------------------------------------------ presentation stub
class Pres(MainPresentation):
    def __init__(self):
        super().__init__()
        self.out = []
        self.err = []
        self.fails = []
        self.pragma = []

    def clear(self):
        self.out.clear()
        self.err.clear()
        self.fails.clear()
        self.pragma.clear()

    def print_system_output(self, output_string):
        self.out.append(output_string)

    def print_system_error(self, error_string):
        self.err.append(error_string)

    def print_scan_failure(self, scan_failure):
        self.fails.append(scan_failure)

    def print_pragma_failure(self, scan_file, line_number, pragma_error):
        self.pragma.append((scan_file, line_number, pragma_error))


def fail_tuple(f):
    return (f.line_number, f.column_number, f.rule_id, f.rule_name, f.extra_error_information)


# ------------------------------------------------------------------ factories
def make_tokenizer(ext_props=None):
    props = ApplicationProperties()
    if ext_props:
        props.load_from_dict(ext_props)
    em = ExtensionManager(MainPresentation())
    em.initialize(None, props)
    em.apply_configuration()
    tok = TokenizedMarkdown()
    tok.apply_configuration(props, em)
    return tok


def plugin_dir():
    import pymarkdown.main

    return os.path.join(os.path.dirname(pymarkdown.main.__file__), "plugins")


_ALL_IDS = None


def all_rule_ids():
    """ids of all registered rules, read from a real PluginManager (concrete)."""
    global _ALL_IDS
    if _ALL_IDS is None:
        from pymarkdown.plugin_manager.plugin_manager import PluginManager

        pm = PluginManager(Pres())
        pm.initialize(plugin_dir(), [], "", "", ApplicationProperties(), False, False)
        # MD999 (plugins/plugin_one.py) is the project's debug-only sample plugin: it print()s
        # every callback; it is never enabled by the harnesses (stated in evidence).
        _ALL_IDS = sorted(
            p.plugin_id.lower() for p in pm._PluginManager__registered_plugins if p.plugin_id.lower() != "md999"
        )
    return list(_ALL_IDS)


def rule_table():
    """[(id, names, enabled_by_default, supports_fix)] from the real plugin manager."""
    from pymarkdown.plugin_manager.plugin_manager import PluginManager

    pm = PluginManager(Pres())
    pm.initialize(plugin_dir(), [], "", "", ApplicationProperties(), False, False)
    out = []
    for p in pm._PluginManager__registered_plugins:
        out.append(
            (
                p.plugin_id.lower(),
                list(p.plugin_names),
                bool(p.plugin_enabled_by_default),
                bool(p.plugin_supports_fix),
            )
        )
    return sorted(out)


class Scanner:
    """Real TokenizedMarkdown + PluginManager + FileScanHelper wired to the VFS."""

    def __init__(self, enable="", disable="", config=None, extra_plugins=(), fix=False,
                 continue_on_error=False, tokenizer=None):
        from pymarkdown.file_scan_helper import FileScanHelper
        from pymarkdown.plugin_manager.plugin_manager import PluginManager
        from pymarkdown.return_code_helper import ReturnCodeHelper

        self.pres = Pres()
        self.props = ApplicationProperties()
        if config:
            self.props.load_from_dict(config)
        if tokenizer is not None:
            self.tok = tokenizer  # built once, untraced (extensions do not depend on rule settings)
        else:
            em = ExtensionManager(self.pres)
            em.initialize(None, self.props)
            em.apply_configuration()
            self.tok = TokenizedMarkdown()
            self.tok.apply_configuration(self.props, em)
        self.pm = PluginManager(self.pres)
        self.pm.initialize(plugin_dir(), list(extra_plugins), enable, disable, self.props, False, False)
        self.pm.apply_configuration(self.props)
        ReturnCodeHelper.reset()
        self.errors = []

        def herr(msg, exc, exit_on_error=True, print_prefix="\n\n"):
            self.errors.append(msg)

        self.fsh = FileScanHelper(self.tok, self.pm, self.pres, False, herr)
        self.args = argparse.Namespace(
            continue_on_error=continue_on_error,
            primary_subparser="fix" if fix else "scan",
            x_fix_debug=False,
            x_fix_file_debug=False,
            x_fix_no_rescan_log=False,
        )
        self.fix = fix

    def run(self, paths):
        """returns (did_fix_any, did_fail_any, did_error?) as process_files_to_scan does"""
        self.pres.clear()
        del self.errors[:]
        return self.fsh.process_files_to_scan(self.args, self.fix, list(paths), None)


def only_rule(rule_id):
    """(enable, disable) strings selecting exactly one rule."""
    rid = rule_id.lower()
    return rid, ",".join(i for i in all_rule_ids() if i != rid)


def untraced(cls, name):
    orig = getattr(cls, name)

    def w(*a, **k):
        with NoTracing():
            return orig(*a, **k)

    w.__wrapped__ = orig
    setattr(cls, name, w)


_main_prepared = False


def prepare_main():
    """Run the concrete initialisation phases of PyMarkdownLint untraced (DESIGN §1)."""
    global _main_prepared
    if _main_prepared:
        return
    _main_prepared = True
    from pymarkdown.main import PyMarkdownLint

    untraced(PyMarkdownLint, "__init__")
    untraced(PyMarkdownLint, "_PyMarkdownLint__initialize_subsystems")
    untraced(PyMarkdownLint, "_PyMarkdownLint__initialize_parser")

from engine import models  # noqa: E402

models.install()
