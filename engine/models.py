"""Symbolic-friendly models of C-backed standard-library functions that would otherwise
realise (and then enumerate) a symbolic character.  Each model is part of the claim (listed
under `stubs` in evidence) and is cross-validated on every path witness, because witnesses
are replayed on the unmodified code with the real library function."""
import urllib as _urllib
import urllib.parse as _parse

import z3
from crosshair.libimpl.builtinslib import LazyIntSymbolicStr, SymbolicInt
from crosshair.tracers import NoTracing


def _hexd(d):
    """code point of the upper-case hex digit of 0 <= d < 16, without forking"""
    if type(d) is int:
        return 48 + d if d < 10 else 55 + d
    with NoTracing():
        s = SymbolicInt._coerce_to_smt_sort(d)
        return SymbolicInt(z3.If(s < 10, s + 48, s + 55))


def _pct(b):
    cps = [37, _hexd(b // 16), _hexd(b % 16)]
    if all(type(c) is int for c in cps):
        return "".join(map(chr, cps))
    with NoTracing():
        return LazyIntSymbolicStr(cps)


def quote(string, safe="/", encoding=None, errors=None):
    """urllib.parse.quote for str input, UTF-8, as documented (RFC 3986 unreserved
    characters and `safe` are kept, everything else is percent-encoded byte-wise)."""
    if not isinstance(string, str):
        return _parse.quote(string, safe, encoding, errors)
    safe_cps = [ord(x) for x in safe if ord(x) < 128]
    parts = []
    for ch in string:
        c = ord(ch)
        if c < 128:
            keep = (65 <= c <= 90) or (97 <= c <= 122) or (48 <= c <= 57) or c == 95 or c == 46 or c == 45 or c == 126
            if not keep:
                for s in safe_cps:
                    if c == s:
                        keep = True
                        break
            parts.append(ch if keep else _pct(c))
        elif c < 0x800:
            parts.append(_pct(0xC0 + c // 64))
            parts.append(_pct(0x80 + c % 64))
        elif c < 0x10000:
            parts.append(_pct(0xE0 + c // 4096))
            parts.append(_pct(0x80 + (c // 64) % 64))
            parts.append(_pct(0x80 + c % 64))
        else:
            parts.append(_pct(0xF0 + c // 262144))
            parts.append(_pct(0x80 + (c // 4096) % 64))
            parts.append(_pct(0x80 + (c // 64) % 64))
            parts.append(_pct(0x80 + c % 64))
    return "".join(parts)


class _ParseFacade:
    quote = staticmethod(quote)

    def __getattr__(self, n):
        return getattr(_parse, n)


class _UrllibFacade:
    parse = _ParseFacade()

    def __getattr__(self, n):
        return getattr(_urllib, n)


STUB_TEXT = "urllib.parse.quote (C-backed, realises its argument) replaced in pymarkdown.links.link_parse_helper by a Python model of its documented behaviour (engine/models.py), cross-validated on every replayed witness"


def install():
    import pymarkdown.links.link_parse_helper as LPH

    LPH.urllib = _UrllibFacade()
