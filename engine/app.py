"""Whole-application runs over the VFS: PyMarkdownLint.main(argv) and PyMarkdownApi, with the
concrete initialisation phases executed untraced (DESIGN §1)."""
from engine import env, vfs
from engine.env import NoTracing, Pres

_VFS = None


def the_vfs():
    global _VFS
    if _VFS is None:
        import pymarkdown.application_file_scanner as AFS
        import pymarkdown.main as MAIN

        _VFS = vfs.install()
        v_open, tempfile_f, shutil_f, os_f, sys_f = vfs.make(_VFS)
        AFS.os = os_f
        env.prepare_main()
    return _VFS


class RunObs:
    """What one invocation of the application did."""

    __slots__ = ("code", "out", "err", "fails", "pragma", "fixed", "files", "log", "exc")

    def fail_tuples(self, with_file=False):
        if with_file:
            return [(f.scan_file, f.line_number, f.column_number, f.rule_id, f.rule_name, f.extra_error_information) for f in self.fails]
        return [(f.line_number, f.column_number, f.rule_id, f.rule_name, f.extra_error_information) for f in self.fails]


class AppPres(Pres):
    def __init__(self):
        super().__init__()
        self.fixed = []

    def print_fix_message(self, file_fixed):
        self.fixed.append(file_fixed)


def run_main(argv, files=(), stdin=None, keep_files=False, crash_at=None, undecodable=()):
    """PyMarkdownLint(...).main(argv) over the VFS.  `files`: [(path, text)] installed first
    unless keep_files."""
    from pymarkdown.main import PyMarkdownLint

    V = the_vfs()
    if not keep_files:
        V.reset()
        for p, t in files:
            V.put(p, t)
    V.log = []
    V.stdin_text = stdin
    V.crash_at = crash_at
    V.step = 0
    V.undecodable = list(undecodable)
    pres = AppPres()
    o = RunObs()
    o.exc = None
    o.code = None
    try:
        PyMarkdownLint(presentation=pres, inherit_logging=True).main(list(argv))
    except SystemExit as e:
        o.code = e.code
    except vfs.Crash:
        o.code = "crash"
        V.files = list(V.snapshot)
    with NoTracing():
        for e in pres.err:
            t = e
            if type(t) is str and ("wall-clock alarm" in t or "_Alarm" in t or "Z3Exception" in t or "CrossHairInternal" in t):
                # an exception of the analysis engine was caught and reported by the application
                from crosshair.util import PathTimeout

                raise PathTimeout("engine exception swallowed by the application: " + t[:120])
    o.out = list(pres.out)
    o.err = list(pres.err)
    o.fails = list(pres.fails)
    o.pragma = list(pres.pragma)
    o.fixed = list(pres.fixed)
    o.files = list(V.files)
    o.log = list(V.log)
    return o


def rule_args(selection):
    """argv prefix selecting rules: 'default' | 'all' | 'only:<id>' | 'minus:<id>'"""
    ids = env.all_rule_ids()
    if selection == "default":
        return []
    if selection == "all":
        return ["-e", ",".join(ids)]
    kind, rid = selection.split(":", 1)
    if kind == "only":
        return ["-e", rid, "-d", ",".join(i for i in ids if i != rid)]
    if kind == "minus":
        return ["-d", rid]
    if kind == "set":  # comma list enabled, everything else disabled
        want = rid.split(",")
        return ["-e", rid, "-d", ",".join(i for i in ids if i not in want)]
    raise ValueError(selection)
