"""Virtual file system stub (DESIGN §2.3).

Files are an association list path -> str (never a dict: hashing a symbolic key realises
it).  Paths under /vfs/ and /vtmp/ are virtual; everything else is delegated to the real
modules.  Every operation is logged (C10) and can be interrupted at a chosen step (C15).
"""
import builtins
import os as _os
import shutil as _shutil  # noqa: F401
import sys as _sys
import tempfile as _tempfile  # noqa: F401

COPY_CHUNK = 4  # characters per write in the copyfile model (crash points in between)


class Crash(BaseException):
    """The process 'dies' here (C15): unwinds to the harness, which snapshots the VFS."""


class VFS:
    def __init__(self):
        self.reset()

    def reset(self):
        self.files = []  # [(path, text)]
        self.log = []  # [(op, path, ...)]
        self.counter = 0
        self.step = 0  # write-back step counter (C15)
        self.crash_at = None  # symbolic or concrete int: die when step == crash_at
        self.snapshot = None
        self.undecodable = []  # paths whose open-for-read raises UnicodeDecodeError
        self.stdin_text = None

    # -- primitive state
    def get(self, p):
        for n, t in self.files:
            if n == p:
                return t
        return None

    def put(self, p, t):
        self.files = [(n, x) for n, x in self.files if n != p] + [(p, t)]

    def rm(self, p):
        self.files = [(n, x) for n, x in self.files if n != p]

    def names(self):
        return sorted(n for n, _ in self.files)

    def tick(self, what, path):
        """A crash point in the write-back of a fixed file."""
        k = self.step
        self.step = k + 1
        if self.crash_at is not None and self.crash_at == k:
            self.snapshot = list(self.files)
            self.log.append(("crash", what, path, k))
            raise Crash(what)


def is_virtual(p):
    return isinstance(p, str) and (p.startswith("/vfs/") or p.startswith("/vtmp/"))


def universal_newlines(t):
    """text-mode read: \\r\\n and \\r become \\n"""
    if "\r" not in t:
        return t
    return t.replace("\r\n", "\n").replace("\r", "\n")


class RFile:
    def __init__(self, text):
        self.text = text

    def __enter__(self):
        return self

    def __exit__(self, *a):
        return False

    def read(self):
        return self.text

    def __iter__(self):
        return iter(self.readlines())

    def readlines(self):
        t = self.text
        out = []
        start = 0
        n = len(t)
        i = 0
        while i < n:
            if t[i] == "\n":
                out.append(t[start : i + 1])
                start = i + 1
            i += 1
        if start < n:
            out.append(t[start:])
        return out

    def close(self):
        pass


class WFile:
    def __init__(self, vfs, path):
        self.vfs = vfs
        self.name = path
        vfs.log.append(("open-w", path))
        vfs.put(path, "")

    def __enter__(self):
        return self

    def __exit__(self, *a):
        return False

    def write(self, s):
        self.vfs.log.append(("write", self.name))
        self.vfs.put(self.name, self.vfs.get(self.name) + s)
        return len(s)

    def close(self):
        pass


def make(vfs):
    """returns (open, tempfile-facade, shutil-facade, os-facade, sys-facade)"""

    def v_open(path, mode="r", *a, **k):
        if not is_virtual(path):
            return builtins.open(path, mode, *a, **k)
        if "w" in mode:
            return WFile(vfs, path)
        for u in vfs.undecodable:
            if u == path:
                vfs.log.append(("open-r-undecodable", path))
                raise UnicodeDecodeError("utf-8", b"\xff", 0, 1, "invalid start byte")
        t = vfs.get(path)
        if t is None:
            raise FileNotFoundError(2, "No such file or directory", path)
        vfs.log.append(("open-r", path))
        return RFile(universal_newlines(t))

    class Tmp:
        def __init__(self, mode="w+b", **k):
            vfs.counter += 1
            self.name = f"/vtmp/t{vfs.counter}{k.get('suffix') or ''}"
            self.delete = k.get("delete", True)
            vfs.put(self.name, "")
            vfs.log.append(("tmp", self.name))

        def __enter__(self):
            return self

        def __exit__(self, *a):
            if self.delete:
                vfs.rm(self.name)
            return False

        def write(self, s):
            vfs.put(self.name, vfs.get(self.name) + s)

        def close(self):
            if self.delete:
                vfs.rm(self.name)

    class tempfile_f:
        NamedTemporaryFile = Tmp

        def __getattr__(self, n):
            return getattr(_tempfile, n)

    class shutil_f:
        @staticmethod
        def copyfile(src, dst):
            """shutil.copyfile contract: open dst for truncating write, copy in chunks."""
            if not (is_virtual(src) or is_virtual(dst)):
                return _shutil.copyfile(src, dst)
            vfs.log.append(("copy", src, dst))
            text = vfs.get(src)
            if text is None:
                raise FileNotFoundError(2, "No such file or directory", src)
            vfs.tick("before-open", dst)
            vfs.put(dst, "")
            vfs.tick("after-truncate", dst)
            n = len(text)
            i = 0
            while i < n:
                vfs.put(dst, vfs.get(dst) + text[i : i + COPY_CHUNK])
                i += COPY_CHUNK
                if i < n:
                    vfs.tick("after-chunk", dst)
            return dst

        @staticmethod
        def move(src, dst):
            if not (is_virtual(src) or is_virtual(dst)):
                return _shutil.move(src, dst)
            return os_facade.replace(src, dst)

    class path_f:
        def __getattr__(self, n):
            return getattr(_os.path, n)

        def exists(self, p):
            return (vfs.get(p) is not None) if is_virtual(p) else _os.path.exists(p)

        def isfile(self, p):
            return (vfs.get(p) is not None) if is_virtual(p) else _os.path.isfile(p)

        def isdir(self, p):
            return False if is_virtual(p) else _os.path.isdir(p)

    class os_f:
        path = path_f()

        def __getattr__(self, n):
            return getattr(_os, n)

        def remove(self, p):
            if is_virtual(p):
                vfs.log.append(("remove", p))
                if vfs.get(p) is None:
                    raise FileNotFoundError(2, "No such file or directory", p)
                vfs.rm(p)
            else:
                _os.remove(p)

        unlink = remove

        def replace(self, src, dst):
            """atomic rename (POSIX rename contract): dst is old or new, never partial"""
            if not (is_virtual(src) or is_virtual(dst)):
                return _os.replace(src, dst)
            vfs.log.append(("replace", src, dst))
            t = vfs.get(src)
            if t is None:
                raise FileNotFoundError(2, "No such file or directory", src)
            vfs.tick("before-replace", dst)
            vfs.rm(src)
            vfs.put(dst, t)

        rename = replace

    os_facade = os_f()

    class stdin_f:
        def __iter__(self):
            return iter(RFile(universal_newlines(vfs.stdin_text or "")).readlines())

        def read(self):
            return universal_newlines(vfs.stdin_text or "")

    class sys_f:
        stdin = stdin_f()

        def __getattr__(self, n):
            return getattr(_sys, n)

    return v_open, tempfile_f(), shutil_f, os_facade, sys_f()


_VFS = None


def install():
    """Bind the facades into the pymarkdown modules that do file I/O. Returns the VFS."""
    global _VFS
    if _VFS is not None:
        return _VFS
    import pymarkdown.api as API
    import pymarkdown.file_scan_helper as FS
    import pymarkdown.general.source_providers as SP

    _VFS = VFS()
    v_open, tempfile_f, shutil_f, os_f, sys_f = make(_VFS)
    for m in (FS, API):
        m.open = v_open
        m.tempfile = tempfile_f
        m.shutil = shutil_f
        m.os = os_f
    FS.sys = sys_f
    SP.open = v_open
    return _VFS
