"""Concrete replay of candidates against the unmodified code: fresh interpreter, no import
hook, no CrossHair, no stubs (DESIGN §2.5).

child:   python -m engine.replay <cases.json> <start-index>     (writes JSON lines on stdout)
parent:  run_replays(cases) -> list of results aligned with cases
"""
import importlib
import json
import os
import signal
import subprocess
import sys
import tempfile
import time

VERIF = os.path.dirname(os.path.dirname(os.path.abspath(__file__)))
PY = os.path.join(VERIF, ".venv", "bin", "python")
CASE_CAP_S = 20


class _Timeout(BaseException):
    pass


def _alarm(signum, frame):
    raise _Timeout()


def _child(path, start):
    out = os.fdopen(os.dup(1), "w")
    os.dup2(2, 1)
    sys.stdout = sys.stderr
    sys.setrecursionlimit(10000)
    repo = os.environ.get("VERIF_REPO", "/repo")
    if repo not in sys.path:
        sys.path.insert(0, repo)
    cases = json.load(open(path))
    signal.signal(signal.SIGALRM, _alarm)
    for i in range(start, len(cases)):
        case = cases[i]
        out.write(json.dumps({"begin": i}) + "\n")
        out.flush()
        t = time.time()
        try:
            mod = importlib.import_module(case["real_module"])
            signal.alarm(int(case.get("cap_s", CASE_CAP_S)))
            try:
                res = mod.replay(case)
            finally:
                signal.alarm(0)
        except _Timeout:
            res = {"violates": None, "timeout": True, "observed": {}}
        except BaseException as exc:  # noqa
            import traceback

            res = {
                "violates": None,
                "replay_error": "".join(traceback.format_exception(exc))[-1500:],
                "observed": {},
            }
        res["index"] = i
        res["wall_s"] = round(time.time() - t, 3)
        out.write(json.dumps(res, default=repr) + "\n")
        out.flush()


def run_replays(cases, batch_cap_s=None):
    """Replay every case; a case on which the child hangs hard is reported as timeout."""
    results = [None] * len(cases)
    if not cases:
        return results
    env = dict(os.environ)
    env["PYTHONPATH"] = VERIF
    env["PYTHONDONTWRITEBYTECODE"] = "1"
    env.pop("VERIF_HOOKS", None)
    fd, path = tempfile.mkstemp(prefix="vp-replay-", suffix=".json")
    with os.fdopen(fd, "w") as f:
        json.dump(cases, f, default=repr)
    try:
        start = 0
        while start < len(cases):
            p = subprocess.Popen(
                [PY, "-m", "engine.replay", path, str(start)],
                cwd=VERIF, env=env, stdout=subprocess.PIPE, stderr=subprocess.DEVNULL, text=True,
            )
            current = None
            deadline_per_case = CASE_CAP_S + 15
            import select

            last = time.time()
            while True:
                r, _, _ = select.select([p.stdout], [], [], 1.0)
                if r:
                    line = p.stdout.readline()
                    if not line:
                        break
                    last = time.time()
                    try:
                        msg = json.loads(line)
                    except json.JSONDecodeError:
                        continue
                    if "begin" in msg:
                        current = msg["begin"]
                    else:
                        results[msg["index"]] = msg
                        current = None
                        start = msg["index"] + 1
                elif time.time() - last > deadline_per_case:
                    p.kill()
                    break
            p.wait()
            if current is not None and results[current] is None:
                results[current] = {"violates": None, "timeout": True, "hard": True, "observed": {}, "index": current}
                start = current + 1
            elif start < len(cases) and p.returncode not in (0, None) and current is None:
                # child died between cases (e.g. import failure): mark the rest as errors
                for i in range(start, len(cases)):
                    results[i] = {"violates": None, "replay_error": f"replay child exited {p.returncode}", "observed": {}, "index": i}
                break
    finally:
        os.unlink(path)
    return results


if __name__ == "__main__":
    _child(sys.argv[1], int(sys.argv[2]))
