"""Development aid: run one shard in-process:  python -m engine.one <module> <harness> '<params json>' [ppt] [budget]"""
import json, sys
from engine import env  # noqa
from engine import driver
import importlib
mod = importlib.import_module(sys.argv[1])
h = mod.HARNESSES[sys.argv[2]](json.loads(sys.argv[3]))
res = driver.explore(h, per_path_timeout=float(sys.argv[4]) if len(sys.argv)>4 else 30.0, budget_s=float(sys.argv[5]) if len(sys.argv)>5 else 600.0)
c = res.pop("candidates"); s = res.pop("samples"); d = res.pop("digests")
print(json.dumps(res, default=repr)[:3000])
print("digests", len(d))
for x in c[:40]: print("CAND", json.dumps(x, default=repr)[:300])
print("ncand", len(c), "nsamples", len(s))
