"""Document spaces (DESIGN §3): G1 free documents, G2 skeleton + holes; cell classes used to
split a multi-cell space into disjoint shards."""
import os

VERIF = os.path.dirname(os.path.dirname(os.path.abspath(__file__)))

# Disjoint classes of code points; the last one ("rest") is the complement.  A shard with
# `classes: [k0, k1...]` constrains cell i to class k_i (a z3 constraint, not an enumeration).
CLASSES = [
    ("tab", [(9, 9)]),
    ("nl", [(10, 10)]),
    ("space", [(32, 32)]),
    ("dash", [(45, 45)]),
    ("plus-star", [(42, 43)]),
    ("hash", [(35, 35)]),
    ("gt", [(62, 62)]),
    ("lt", [(60, 60)]),
    ("backtick-tilde", [(96, 96), (126, 126)]),
    ("bracket", [(91, 91), (93, 93)]),
    ("paren", [(40, 41)]),
    ("backslash", [(92, 92)]),
    ("amp", [(38, 38)]),
    ("underscore-eq", [(95, 95), (61, 61)]),
    ("bang-colon", [(33, 33), (58, 58)]),
    ("quote", [(34, 34), (39, 39)]),
    ("digit", [(48, 57)]),
    ("other-punct", [(36, 37), (44, 44), (46, 47), (59, 59), (63, 64), (94, 94), (123, 125)]),
    ("letter", [(65, 90), (97, 122)]),
    ("control", [(1, 8), (11, 12), (14, 31), (127, 127)]),
    ("non-ascii", [(128, 0x10FFFF)]),
]
NCLASS = len(CLASSES)


def in_class(c, k):
    """Traced membership test of cell c in class k."""
    for lo, hi in CLASSES[k][1]:
        if lo <= c <= hi:
            return True
    return False


def load_pool(tier):
    """'mini' -> mini; 'quick'/'core' -> mini+core; 'thorough'/'full' -> all."""
    want = {"mini": ("mini",), "quick": ("mini", "core"), "core": ("mini", "core")}.get(tier, ("mini", "core", "full"))
    out = []
    with open(os.path.join(VERIF, "skeletons.txt"), encoding="utf-8") as f:
        for line in f:
            line = line.rstrip("\n")
            if not line or line.startswith("#"):
                continue
            tag, text = line.split("\t", 1)
            if tag in want:
                out.append(text.encode("ascii").decode("unicode_escape"))
    return out


def g1_shards(max_len, split_from=2):
    """Free documents of length 0..max_len; lengths >= split_from are split by the class of
    the first (length-1) cells."""
    shards = []
    for n in range(0, max_len + 1):
        sk = "?" * n
        holes = list(range(n))
        if n < split_from:
            shards.append({"skeleton": sk, "holes": holes})
        else:
            def rec(prefix):
                if len(prefix) == n - 1:
                    shards.append({"skeleton": sk, "holes": holes, "classes": list(prefix)})
                    return
                for k in range(NCLASS):
                    rec(prefix + [k])
            rec([])
    return shards


def g2_shards(pool, replace=True, insert=False, positions=None):
    """One symbolic cell at every position of every skeleton."""
    shards = []
    for sk in pool:
        if replace:
            for p in range(len(sk)):
                shards.append({"skeleton": sk[:p] + "?" + sk[p + 1 :], "holes": [p], "base": sk, "mode": "replace"})
        if insert:
            for p in range(len(sk) + 1):
                shards.append({"skeleton": sk[:p] + "?" + sk[p:], "holes": [p], "base": sk, "mode": "insert"})
    return shards


def g2_pairs(pairs):
    """Two adjacent symbolic cells at listed (skeleton, position) pairs, split by class of
    the first cell."""
    shards = []
    for sk, p in pairs:
        for k in range(NCLASS):
            shards.append({"skeleton": sk[:p] + "??" + sk[p + 2 :], "holes": [p, p + 1], "base": sk, "mode": "replace2", "classes": [k]})
    return shards


# DESIGN 2.7: finite alphabet used for cells that reach a hashing site
FINITE_RANGES = [(1, 10), (32, 126)]
FINITE_SINGLES = [0xA0, 0xE9, 0x663, 0x2003, 0x3000, 0xFE, 0x8268, 0x8269, 0x130, 0x1F600]
FINITE_TEXT = "U+0001-U+000A, U+0020-U+007E, U+00A0, U+00E9, U+00FE, U+0130, U+0663, U+2003, U+3000, U+8268, U+8269, U+1F600"


def in_finite(c):
    for lo, hi in FINITE_RANGES:
        if lo <= c <= hi:
            return True
    for x in FINITE_SINGLES:
        if c == x:
            return True
    return False


# G3 (DESIGN 3): structural counters -- templates whose repetition counts are symbolic ints
TEMPLATES = {
    "heading-levels": [["rep", "#", 1, 5], " a\n\n", ["rep", "#", 1, 5], " b\n\n", ["rep", "#", 1, 5], " c\n"],
    "list-indents": ["- a\n", ["rep", " ", 0, 5], "- b\n", ["rep", " ", 0, 7], "- c\n"],
    "blank-lines-and-trailing-spaces": ["a", ["rep", " ", 0, 3], "\n", ["rep", "\n", 0, 3], "b", ["rep", " ", 0, 3], ["rep", "\n", 0, 2]],
    "hashes-and-spaces": [["rep", "#", 1, 3], ["rep", " ", 0, 3], "a", ["rep", " ", 0, 2], ["rep", "#", 0, 2], "\n"],
    "ordered-list-indents": ["1. a\n", ["rep", " ", 0, 4], "1. b\n", ["rep", " ", 0, 6], "c\n"],
    "quote-depth": [["rep", ">", 1, 3], " a\n", ["rep", ">", 0, 3], ["rep", " ", 0, 2], "b\n"],
    "fence-lengths": [["rep", "`", 3, 5], "x\n", "c\n", ["rep", "`", 2, 5], "\n", "d\n"],
}


def g3_shards(names=None):
    return [{"template": TEMPLATES[n], "template_name": n} for n in (names or list(TEMPLATES))]


# G1-Sigma (C01's quantifier: "every sequence over the Markdown-significant alphabet"): all
# documents of a fixed length whose every cell ranges over a small alphabet; the alphabet is a z3
# disjunction on each cell, the solver explores the behaviours.
ALPHABETS = {
    "emphasis": "*_a `",
    "links": "[]()a!",
    "containers": ">- \na1.",
    "leaf": "#=`~\n a-",
    "autolink": "<>a:/",
}


def in_alphabet(c, name):
    for ch in ALPHABETS[name]:
        if c == ord(ch):
            return True
    return False


def sigma_shards(name, length, split=1):
    """all documents of exactly `length` cells over ALPHABETS[name]; the first `split` cells
    are fixed per shard (disjoint shards)."""
    import itertools

    alpha = ALPHABETS[name]
    shards = []
    for prefix in itertools.product(alpha, repeat=min(split, length)):
        sk = "".join(prefix) + "?" * (length - len(prefix))
        shards.append({"skeleton": sk, "holes": list(range(len(prefix), length)), "alphabet": name})
    return shards
