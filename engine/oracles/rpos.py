"""R-pos: position oracle (C05).  From (source, token kind) decide which character must sit
at (line, column).  Works on symbolic documents: every comparison on a cell is a z3 query.

Conventions taken from the property text and newdocs (columns are 1-based character
offsets in the physical source line).  Lines that contain a TAB before the reported column
are outside the claim (tab-stop semantics of `column` is undocumented): such tokens are
skipped and counted.
"""

_BLOCK_OPENERS = {
    "atx": "#",
    "block-quote": ">",
    "tbreak": "*-_",
    "html-block": "<",
    "link-ref-def": "[",
}
_INLINE_OPENERS = {
    "icode-span": "`",
    "uri-autolink": "<",
    "email-autolink": "<",
    "raw-html": "<",
    "link": "[",
    "image": "!",
}


def _lines(doc):
    out = []
    start = 0
    n = len(doc)
    i = 0
    while i < n:
        if doc[i] == "\n":
            out.append(doc[start:i])
            start = i + 1
        i += 1
    out.append(doc[start:])
    return out


def _has_tab_before(line, col):
    i = 0
    lim = min(col - 1, len(line))
    while i < lim:
        if line[i] == "\t":
            return True
        i += 1
    return False


def check(doc, tokens, stats=None):
    """Returns a list of violation dicts (possibly empty)."""
    out = []
    lines = _lines(doc)
    nlines = len(lines)
    last_block_line = 0
    for tok in tokens:
        name = tok.token_name
        if tok.is_end_token or name in ("end-of-stream", "pragma"):
            continue
        ln = tok.line_number
        col = tok.column_number
        if ln == 0 and col == 0:
            continue  # token kinds that carry no position
        if not (1 <= ln <= nlines):
            out.append({"token": name, "line": ln, "column": col, "why": f"line not in 1..{nlines}"})
            continue
        text = lines[ln - 1]
        if _has_tab_before(text, len(text) + 1):
            # outside the claim: column semantics on a line containing a TAB is undocumented
            if stats is not None:
                stats["tab_skipped"] = stats.get("tab_skipped", 0) + 1
            if tok.is_container or tok.is_leaf:
                if ln < last_block_line:
                    out.append({"token": name, "line": ln, "column": col, "why": f"block token line decreases (after {last_block_line})"})
                last_block_line = ln
            continue
        if not (1 <= col <= len(text) + 1):
            out.append({"token": name, "line": ln, "column": col, "why": "column outside the line"})
            continue
        is_block = tok.is_container or tok.is_leaf
        if is_block:
            if ln < last_block_line:
                out.append({"token": name, "line": ln, "column": col, "why": f"block token line decreases (after {last_block_line})"})
            last_block_line = ln
        ch = text[col - 1] if col <= len(text) else ""
        want = None
        if name in _BLOCK_OPENERS:
            want = _BLOCK_OPENERS[name]
        elif name in _INLINE_OPENERS:
            want = _INLINE_OPENERS[name]
        elif name == "fcode-block":
            want = "`~"
        elif name == "ulist" or (name == "li" and not _is_digit(ch)):
            want = "-+*" if name == "ulist" else None
        elif name == "olist":
            if not _is_digit(ch):
                out.append({"token": name, "line": ln, "column": col, "why": "not at a digit"})
            continue
        elif name == "emphasis":
            want = "*_~"
        elif name == "para":
            # first character of the paragraph: not a space
            if ch == " " or ch == "":
                out.append({"token": name, "line": ln, "column": col, "why": "paragraph position not at its first character"})
            continue
        if want is not None:
            ok = False
            for w in want:
                if ch == w:
                    ok = True
                    break
            if not ok:
                out.append({"token": name, "line": ln, "column": col, "why": f"source character is not one of {want!r}", "found": ch})
    return out


def _is_digit(ch):
    return ch != "" and "0" <= ch <= "9"
