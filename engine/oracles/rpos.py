"""R-pos: position oracle (C05).  From (source, token kind) decide which character must sit
at (line, column).  Works on symbolic documents: every comparison on a cell is a z3 query.

Conventions taken from the property text and newdocs (columns are 1-based character
offsets in the physical source line).  Lines that contain a TAB before the reported column
are outside the claim (tab-stop semantics of `column` is undocumented): such tokens are
skipped and counted.
"""

_BLOCK_OPENERS = {
    "atx": "#",
    "block-quote": ">",
    "tbreak": "*-_",
    "html-block": "<",
    "link-ref-def": "[",
}
_INLINE_OPENERS = {
    "icode-span": "`",
    "uri-autolink": "<",
    "email-autolink": "<",
    "raw-html": "<",
    "link": "[",
    "image": "!",
}


def _lines(doc):
    out = []
    start = 0
    n = len(doc)
    i = 0
    while i < n:
        if doc[i] == "\n":
            out.append(doc[start:i])
            start = i + 1
        i += 1
    out.append(doc[start:])
    return out


def _has_tab_before(line, col):
    i = 0
    lim = min(col - 1, len(line))
    while i < lim:
        if line[i] == "\t":
            return True
        i += 1
    return False


def check(doc, tokens, stats=None):
    """Returns a list of violation dicts (possibly empty)."""
    out = []
    lines = _lines(doc)
    nlines = len(lines)
    last_block_line = 0
    parent = None  # innermost open leaf block (for text tokens)
    for tok in tokens:
        name = tok.token_name
        if tok.is_leaf and not tok.is_end_token:
            parent = name
        elif tok.is_end_token and name in ("end-para", "end-atx", "end-setext", "end-fcode-block", "end-icode-block", "end-html-block"):
            parent = None
        if tok.is_end_token or name in ("end-of-stream", "pragma"):
            continue
        ln = tok.line_number
        col = tok.column_number
        if ln == 0 and col == 0:
            continue  # token kinds that carry no position
        if not (1 <= ln <= nlines):
            out.append({"token": name, "line": ln, "column": col, "why": f"line not in 1..{nlines}"})
            continue
        text = lines[ln - 1]
        if _has_tab_before(text, len(text) + 1):
            # outside the claim: column semantics on a line containing a TAB is undocumented
            if stats is not None:
                stats["tab_skipped"] = stats.get("tab_skipped", 0) + 1
            if tok.is_container or tok.is_leaf:
                if ln < last_block_line:
                    out.append({"token": name, "line": ln, "column": col, "why": f"block token line decreases (after {last_block_line})"})
                last_block_line = ln
            continue
        if not (1 <= col <= len(text) + 1):
            out.append({"token": name, "line": ln, "column": col, "why": "column outside the line"})
            continue
        is_block = tok.is_container or tok.is_leaf
        if is_block:
            if ln < last_block_line:
                out.append({"token": name, "line": ln, "column": col, "why": f"block token line decreases (after {last_block_line})"})
            last_block_line = ln
        ch = text[col - 1] if col <= len(text) else ""
        if name in ("html-block", "tbreak"):
            # project convention: these blocks are positioned at the start of their (up to 3
            # characters of) indentation; the opener is the first non-space character from there
            k = col - 1
            while k < len(text) and text[k] == " ":
                k += 1
            ch = text[k] if k < len(text) else ""
        want = None
        if name in _BLOCK_OPENERS:
            want = _BLOCK_OPENERS[name]
        elif name in _INLINE_OPENERS:
            want = _INLINE_OPENERS[name]
        elif name == "fcode-block":
            want = "`~"
        elif name == "ulist" or (name == "li" and not _is_digit(ch)):
            want = "-+*" if name == "ulist" else None
        elif name == "olist":
            if not _is_digit(ch):
                out.append({"token": name, "line": ln, "column": col, "why": "not at a digit"})
            continue
        elif name == "emphasis":
            want = "*_~"
        elif name == "li":
            if not (_is_digit(ch) or ch == "-" or ch == "+" or ch == "*"):
                out.append({"token": name, "line": ln, "column": col, "why": "new list item position is not at a list marker", "found": ch})
            continue
        elif name == "hard-break":
            if not (ch == " " or ch == chr(92)):
                out.append({"token": name, "line": ln, "column": col, "why": "hard break position is not at its spaces/backslash", "found": ch})
            continue
        elif name == "text" and parent in ("para", "atx"):
            # the source character at the position is the first character of the text, unless
            # the text starts with a replacement marker (escape, character reference)
            tt = tok.token_text
            if len(tt) > 0:
                first = tt[0]
                if not _is_marker(first) and first != "\n":
                    if not (ch == first):
                        out.append({"token": name, "line": ln, "column": col, "why": "text position is not at the first character of the text", "found": ch, "expected": first})
            continue
        elif name == "para":
            # first character of the paragraph: not a space
            if ch == " " or ch == "":
                out.append({"token": name, "line": ln, "column": col, "why": "paragraph position not at its first character"})
            continue
        if want is not None:
            ok = False
            for w in want:
                if ch == w:
                    ok = True
                    break
            if not ok:
                out.append({"token": name, "line": ln, "column": col, "why": f"source character is not one of {want!r}", "found": ch})
    return out


def _is_marker(ch):
    """pymarkdown's in-band replacement / escape markers (and the characters they stand for)"""
    o = ord(ch)
    return o < 9 or o == 0xFE or o == 0x8268 or o == 0x8269


def _is_digit(ch):
    return ch != "" and "0" <= ch <= "9"
