"""R-rule: documented trigger conditions of individual rules (C06), written from
newdocs/src/plugins/rule_md*.md; evaluated on the source lines plus the block structure given
by the reference parser (markdown-it token maps), never by pymarkdown.  Each function returns
the list of 1-based lines on which the rule must report."""


def split_lines(doc):
    out = []
    start = 0
    n = len(doc)
    i = 0
    while i < n:
        if doc[i] == "\n":
            out.append(doc[start:i])
            start = i + 1
        i += 1
    out.append(doc[start:])
    return out


def structure(md_tokens):
    """from markdown-it block tokens: (set of 0-based code lines, has_container, has_html)"""
    code = []
    has_container = False
    has_html = False
    for t in md_tokens:
        if t.type in ("fence", "code_block") and t.map:
            for ln in range(t.map[0], t.map[1]):
                code.append(ln)
        elif t.type in ("blockquote_open", "bullet_list_open", "ordered_list_open"):
            has_container = True
        elif t.type == "html_block":
            has_html = True
    return code, has_container, has_html


def trailing_spaces(line):
    n = 0
    while n < len(line) and line[len(line) - 1 - n] == " ":
        n += 1
    return n


def md009(lines, code_lines, br_spaces, strict):
    """rule_md009.md: a line ending in spaces is reported unless the count equals br_spaces
    (values below 2 count as 0); strict: every such line; code block lines are exempt."""
    eff = br_spaces if br_spaces >= 2 else 0
    out = []
    for i, l in enumerate(lines):
        if i in code_lines:
            continue
        n = trailing_spaces(l)
        if n > 0 and (strict or n != eff):
            out.append(i + 1)
    return out


def md010(lines):
    """rule_md010.md: any line with a hard tab (code_blocks default True: also inside code)"""
    return [i + 1 for i, l in enumerate(lines) if "\t" in l]


def is_blank(line):
    for ch in line:
        if not (ch == " " or ch == "\t"):
            return False
    return True


def md012(lines, code_lines, maximum):
    """rule_md012.md: a run of consecutive blank lines longer than `maximum` (outside code
    blocks) is reported once, at its last line.  Only called for documents without containers
    and HTML blocks (stated outside the claim)."""
    out = []
    run = 0
    for i, l in enumerate(lines):
        if is_blank(l) and i not in code_lines:
            run += 1
        else:
            if run > maximum:
                out.append(i)  # 1-based number of the last blank line of the run
            run = 0
    if run > maximum:
        out.append(len(lines))
    return out


def md013(lines, limit, strict):
    """rule_md013.md: line longer than the limit; unless strict, only if whitespace (space or
    tab) occurs beyond the limit ("long last words")."""
    out = []
    for i, l in enumerate(lines):
        if len(l) > limit:
            if strict:
                out.append(i + 1)
            else:
                j = limit
                found = False
                while j < len(l):
                    if l[j] == " " or l[j] == "\t":
                        found = True
                        break
                    j += 1
                if found:
                    out.append(i + 1)
    return out


def md013x(lines, code_lines, heading_lines, limits, code_blocks, headings, strict):
    """rule_md013.md, 'Special Elements': headings use heading_line_length (and are skipped
    when `headings` is off), code block lines use code_block_line_length (skipped when
    `code_blocks` is off), every other line uses line_length.  limits = (line, heading, code)."""
    out = []
    for i, l in enumerate(lines):
        if i in code_lines:
            if not code_blocks:
                continue
            limit = limits[2]
        elif i in heading_lines:
            if not headings:
                continue
            limit = limits[1]
        else:
            limit = limits[0]
        if len(l) > limit:
            if strict:
                out.append(i + 1)
            else:
                j = limit
                found = False
                while j < len(l):
                    if l[j] == " " or l[j] == "\t":
                        found = True
                        break
                    j += 1
                if found:
                    out.append(i + 1)
    return out


def heading_lines(md_tokens):
    out = []
    for t in md_tokens:
        if t.type == "heading_open" and t.map:
            for ln in range(t.map[0], t.map[1]):
                out.append(ln)
    return out


def md047(lines):
    """rule_md047.md: the document does not end with a single newline: its last line (the
    text after the final newline) is not empty."""
    if len(lines[-1]) > 0:
        return [len(lines)]
    return []


# ---------------------------------------------------------------- heading-structure rules
def headings(md_tokens):
    """[(level, first 0-based line, is_atx)] of every heading the reference parser sees"""
    out = []
    for t in md_tokens:
        if t.type == "heading_open" and t.map:
            out.append((int(t.tag[1]), t.map[0], t.markup[:1] == "#"))
    return out


def first_block(md_tokens):
    """(type, tag, first line) of the first block of the document, or None"""
    for t in md_tokens:
        if t.map and t.type != "inline":
            return (t.type, t.tag, t.map[0])
    return None


def md001(md_tokens):
    """rule_md001.md: a heading whose level exceeds the previous heading's level by more than 1"""
    out = []
    prev = None
    for level, line, _atx in headings(md_tokens):
        if prev is not None and level > prev + 1:
            out.append(line + 1)
        prev = level
    return out


def _after_hashes(line):
    """(number of leading spaces, number of hashes, rest) for a line that starts like an ATX
    heading (<= 3 spaces then 1..6 '#'), else None"""
    i = 0
    while i < len(line) and i < 4 and line[i] == " ":
        i += 1
    if i > 3:
        return None
    j = i
    while j < len(line) and line[j] == "#":
        j += 1
    n = j - i
    if not (1 <= n <= 6):
        return None
    return i, n, line[j:]


def _ends_with_hash(rest):
    k = len(rest)
    while k > 0 and (rest[k - 1] == " " or rest[k - 1] == "\t"):
        k -= 1
    return k > 0 and rest[k - 1] == "#"


def md019(lines, md_tokens):
    """rule_md019.md: ATX heading with more than one space between the hashes and the first
    non-space character of its text"""
    out = []
    for level, line, atx in headings(md_tokens):
        if not atx:
            continue
        p = _after_hashes(lines[line])
        if p is None:
            continue
        rest = p[2]
        if "\t" in rest:
            return None  # TAB after the hashes: outside this oracle
        if _ends_with_hash(rest):
            return None  # closed ATX heading: MD021's subject, not MD019's
        k = 0
        while k < len(rest) and rest[k] == " ":
            k += 1
        if k >= 2 and k == len(rest):
            return None  # heading without text followed by spaces: the documentation does not say
        if k >= 2:
            out.append(line + 1)
    return out


def md023(lines, md_tokens):
    """rule_md023.md: whitespace before the heading (ATX headings; documents without containers)"""
    out = []
    for level, line, atx in headings(md_tokens):
        if atx and len(lines[line]) > 0 and lines[line][0] == " ":
            out.append(line + 1)
    return out


def md018(lines, md_tokens):
    """rule_md018.md: in a paragraph, a line that after <= 3 leading spaces has 1-6 '#'
    followed by at least one non-space character (top-level paragraphs)"""
    out = []
    for t in md_tokens:
        if t.type == "paragraph_open" and t.map and t.level == 0:
            for ln in range(t.map[0], t.map[1]):
                p = _after_hashes(lines[ln])
                if p is None:
                    continue
                rest = p[2]
                if _ends_with_hash(rest):
                    return None  # looks like a closed ATX heading: MD020's subject
                if len(rest) > 0 and not (rest[0] == " " or rest[0] == "\t" or rest[0] == "#"):
                    out.append(ln + 1)
    return out


def md040(md_tokens):
    """rule_md040.md: fenced code block whose info string is empty or whitespace only"""
    out = []
    for t in md_tokens:
        if t.type == "fence" and t.map:
            info = t.info
            blank = True
            for ch in info:
                if not (ch == " " or ch == "\t"):
                    blank = False
                    break
            if blank:
                out.append(t.map[0] + 1)
    return out


def md025(md_tokens, level):
    """rule_md025.md: more than one heading of the top level (`level`): every one after the first"""
    out = []
    seen = False
    for lv, line, _atx in headings(md_tokens):
        if lv == level:
            if seen:
                out.append(line + 1)
            seen = True
    return out


def md041(lines, md_tokens, level):
    """rule_md041.md: the first block of the document is not a heading of level `level`
    (documents whose first block is an HTML block are outside this oracle)"""
    fb = first_block(md_tokens)
    if fb is None:
        return [1]  # only blank lines: reported against the first line
    ty, tag, line = fb
    if ty == "heading_open" and int(tag[1]) == level:
        return []
    return [line + 1]
