"""R-rule: documented trigger conditions of individual rules (C06), written from
newdocs/src/plugins/rule_md*.md; evaluated on the source lines plus the block structure given
by the reference parser (markdown-it token maps), never by pymarkdown.  Each function returns
the list of 1-based lines on which the rule must report."""


def split_lines(doc):
    out = []
    start = 0
    n = len(doc)
    i = 0
    while i < n:
        if doc[i] == "\n":
            out.append(doc[start:i])
            start = i + 1
        i += 1
    out.append(doc[start:])
    return out


def structure(md_tokens):
    """from markdown-it block tokens: (set of 0-based code lines, has_container, has_html)"""
    code = []
    has_container = False
    has_html = False
    for t in md_tokens:
        if t.type in ("fence", "code_block") and t.map:
            for ln in range(t.map[0], t.map[1]):
                code.append(ln)
        elif t.type in ("blockquote_open", "bullet_list_open", "ordered_list_open"):
            has_container = True
        elif t.type == "html_block":
            has_html = True
    return code, has_container, has_html


def trailing_spaces(line):
    n = 0
    while n < len(line) and line[len(line) - 1 - n] == " ":
        n += 1
    return n


def md009(lines, code_lines, br_spaces, strict):
    """rule_md009.md: a line ending in spaces is reported unless the count equals br_spaces
    (values below 2 count as 0); strict: every such line; code block lines are exempt."""
    eff = br_spaces if br_spaces >= 2 else 0
    out = []
    for i, l in enumerate(lines):
        if i in code_lines:
            continue
        n = trailing_spaces(l)
        if n > 0 and (strict or n != eff):
            out.append(i + 1)
    return out


def md010(lines):
    """rule_md010.md: any line with a hard tab (code_blocks default True: also inside code)"""
    return [i + 1 for i, l in enumerate(lines) if "\t" in l]


def is_blank(line):
    for ch in line:
        if not (ch == " " or ch == "\t"):
            return False
    return True


def md012(lines, code_lines, maximum):
    """rule_md012.md: a run of consecutive blank lines longer than `maximum` (outside code
    blocks) is reported once, at its last line.  Only called for documents without containers
    and HTML blocks (stated outside the claim)."""
    out = []
    run = 0
    for i, l in enumerate(lines):
        if is_blank(l) and i not in code_lines:
            run += 1
        else:
            if run > maximum:
                out.append(i)  # 1-based number of the last blank line of the run
            run = 0
    if run > maximum:
        out.append(len(lines))
    return out


def md013(lines, limit, strict):
    """rule_md013.md: line longer than the limit; unless strict, only if whitespace (space or
    tab) occurs beyond the limit ("long last words")."""
    out = []
    for i, l in enumerate(lines):
        if len(l) > limit:
            if strict:
                out.append(i + 1)
            else:
                j = limit
                found = False
                while j < len(l):
                    if l[j] == " " or l[j] == "\t":
                        found = True
                        break
                    j += 1
                if found:
                    out.append(i + 1)
    return out


def md013x(lines, code_lines, heading_lines, limits, code_blocks, headings, strict):
    """rule_md013.md, 'Special Elements': headings use heading_line_length (and are skipped
    when `headings` is off), code block lines use code_block_line_length (skipped when
    `code_blocks` is off), every other line uses line_length.  limits = (line, heading, code)."""
    out = []
    for i, l in enumerate(lines):
        if i in code_lines:
            if not code_blocks:
                continue
            limit = limits[2]
        elif i in heading_lines:
            if not headings:
                continue
            limit = limits[1]
        else:
            limit = limits[0]
        if len(l) > limit:
            if strict:
                out.append(i + 1)
            else:
                j = limit
                found = False
                while j < len(l):
                    if l[j] == " " or l[j] == "\t":
                        found = True
                        break
                    j += 1
                if found:
                    out.append(i + 1)
    return out


def heading_lines(md_tokens):
    out = []
    for t in md_tokens:
        if t.type == "heading_open" and t.map:
            for ln in range(t.map[0], t.map[1]):
                out.append(ln)
    return out


def md047(lines):
    """rule_md047.md: the document does not end with a single newline: its last line (the
    text after the final newline) is not empty."""
    if len(lines[-1]) > 0:
        return [len(lines)]
    return []
