"""R-fp: content fingerprint (C08) read from the reference parser's token stream.
Kept: block nesting and kinds, text (whitespace runs collapsed), inline element kinds, link
and image targets and titles, code content, raw HTML.  Projected out (the documented
normalisations of the fixing rules): whitespace amounts, list/emphasis/fence marker
characters, ordered-list numbers, fenced-vs-indented code style and info-less fences, heading
level and heading style, the boundary between adjacent lists of the same kind."""

_OPEN = {"paragraph_open": "p", "heading_open": "h", "bullet_list_open": "ul", "ordered_list_open": "ol", "list_item_open": "li", "blockquote_open": "bq"}
_CLOSE = {"paragraph_close": "/p", "heading_close": "/h", "bullet_list_close": "/ul", "ordered_list_close": "/ol", "list_item_close": "/li", "blockquote_close": "/bq"}


def squash(text):
    """collapse whitespace runs to one space and strip"""
    out = []
    pending = False
    for ch in text:
        if ch == " " or ch == "\t" or ch == "\n":
            pending = len(out) > 0
        else:
            if pending:
                out.append(" ")
                pending = False
            out.append(ch)
    return "".join(out)


def _code(content):
    # code content without trailing whitespace-only tail (final newline conventions differ
    # between indented and fenced blocks)
    lines = content.split("\n")
    while lines and squash(lines[-1]) == "":
        lines.pop()
    return "\n".join(lines)


def fingerprint(tokens):
    fp = []
    for t in tokens:
        ty = t.type
        if ty in _OPEN:
            fp.append(_OPEN[ty])
        elif ty in _CLOSE:
            fp.append(_CLOSE[ty])
        elif ty == "hr":
            fp.append("hr")
        elif ty in ("fence", "code_block"):
            fp.append(("code", squash(t.info or "") if ty == "fence" else "", _code(t.content)))
        elif ty == "html_block":
            fp.append(("html", squash(t.content)))
        elif ty == "inline":
            text = []
            for c in t.children or []:
                cy = c.type
                if cy == "text":
                    text.append(c.content)
                elif cy in ("softbreak", "hardbreak"):
                    text.append(" ")
                else:
                    if text:
                        s = squash("".join(text))
                        if s:
                            fp.append(("text", s))
                        text = []
                    if cy == "code_inline":
                        fp.append(("codespan", squash(c.content)))
                    elif cy == "link_open":
                        fp.append(("a", c.attrGet("href"), c.attrGet("title")))
                    elif cy == "image":
                        fp.append(("img", c.attrGet("src"), c.attrGet("title"), squash(c.content)))
                    elif cy == "html_inline":
                        fp.append(("rawhtml", c.content))
                    else:
                        fp.append(cy)  # em_open, strong_close, link_close, ...
            if text:
                s = squash("".join(text))
                if s:
                    fp.append(("text", s))
    # marker characters are a documented normalisation (MD004, MD029): two adjacent lists of
    # the same kind that differ only in their marker become one list when fixed
    merged = []
    for x in fp:
        if merged and ((merged[-1] == "/ul" and x == "ul") or (merged[-1] == "/ol" and x == "ol")):
            merged.pop()
            continue
        merged.append(x)
    return merged
