"""R-stack: independent stack automaton for token-stream well-formedness (C04).

Written from the property text, not from pymarkdown's stack_token.py.  Only uses the public
read-only surface of a token: token_name, is_container, is_leaf, is_end_token,
start_markdown_token (end tokens), and the token class of inline tokens.
"""

CONTAINER = "container"
LEAF = "leaf"
INLINE = "inline"
OTHER = "other"

# leaf blocks that are a single token (no end token)
_SOLO_LEAF = {"BLANK", "tbreak", "link-ref-def", "front-matter"}
# inline tokens that open a span closed by an end token
_PAIRED_INLINE = {"emphasis", "link"}
_TRAILERS = {"end-of-stream", "pragma"}


def token_class(tok):
    if tok.is_container:
        return CONTAINER
    if tok.is_leaf:
        return LEAF
    name = tok.token_name
    if name in _TRAILERS:
        return OTHER
    return INLINE


def check(tokens):
    """Returns None if well-formed, else a short reason string (concrete)."""
    stack = []  # open start tokens
    n = len(tokens)
    i = 0
    seen_eos = False
    for tok in tokens:
        name = tok.token_name
        if name in _TRAILERS:
            if name == "end-of-stream":
                if stack:
                    return f"end-of-stream with {len(stack)} open token(s): {stack[-1].token_name}"
                seen_eos = True
            elif name == "pragma":
                if i != n - 1:
                    return "pragma token is not last"
            i += 1
            continue
        if seen_eos:
            return f"token {name} after end-of-stream"
        if tok.is_end_token:
            if not stack:
                return f"{name} closes nothing"
            top = stack[-1]
            if name != "end-" + top.token_name:
                return f"{name} does not close the innermost open token {top.token_name}"
            if tok.start_markdown_token is not top:
                return f"{name} does not refer to the token it closes"
            stack.pop()
            i += 1
            continue
        cls = token_class(tok)
        parent = stack[-1] if stack else None
        pcls = token_class(parent) if parent is not None else None
        if cls == CONTAINER:
            if parent is not None and pcls != CONTAINER:
                return f"container {name} inside {parent.token_name}"
            if name == "li":
                if parent is None or parent.token_name not in ("ulist", "olist"):
                    return "new-list-item not directly inside a list"
            else:
                stack.append(tok)
        elif cls == LEAF:
            if name == "BLANK" and parent is not None and parent.token_name == "html-block":
                # project convention (asserted by the repository's own tests): a blank line
                # inside an HTML block is a BLANK token between its text tokens
                i += 1
                continue
            if parent is not None and pcls != CONTAINER:
                return f"leaf {name} inside {parent.token_name}"
            if name not in _SOLO_LEAF:
                stack.append(tok)
        else:  # inline
            if parent is None or pcls == CONTAINER:
                return f"inline {name} outside a leaf block"
            if name in _PAIRED_INLINE:
                stack.append(tok)
        i += 1
    if stack:
        return f"{len(stack)} token(s) left open at end: {stack[-1].token_name}"
    return None
