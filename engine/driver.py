"""Path-exploration driver on top of CrossHair's state space (DESIGN §2.1).

This is `crosshair.core.explore_paths` re-written so that
  * symbolic variables are created directly (`SymbolicInt(name)`), which avoids CrossHair's
    "premature realize" fork for declared arguments;
  * a path that runs into `UnexploredPath` (solver unknown, per-path timeout, proxy
    intolerance) is realised from its partial path condition and recorded as inconclusive;
  * a wall-clock alarm turns a concrete non-terminating loop into a `PathTimeout`;
  * every completed path is detached and its variables / verdict / observation digest are
    realised from z3's model;
  * z3 `check()` calls are counted and timed.
A shard is *decided* iff the path tree is exhausted and no path was inconclusive.
"""
import os
import random
import signal
import sys
import time
import traceback
from time import process_time

import crosshair.core_and_libs  # noqa: F401  (registers the standard-library models)
import z3
from crosshair.condition_parser import condition_parser
from crosshair.core import (
    Patched,
    deep_realize,
    suspected_proxy_intolerance_exception,
)
from crosshair.libimpl.builtinslib import SymbolicBool, SymbolicInt
from crosshair.options import DEFAULT_OPTIONS
from crosshair.statespace import (
    CallAnalysis,
    RootNode,
    StateSpace,
    StateSpaceContext,
    VerificationStatus,
)
from crosshair.tracers import COMPOSITE_TRACER, NoTracing, ResumedTracing
from crosshair.util import (
    CrosshairUnsupported,
    IgnoreAttempt,
    PathTimeout,
    UnexploredPath,
)

SKIP = "__SKIP__"  # returned by a harness body when its precondition is false

# ---------------------------------------------------------------- solver accounting
SOLVER = {"queries": 0, "seconds": 0.0}
_orig_check = z3.Solver.check


def _counting_check(self, *a, **k):
    t = time.perf_counter()
    try:
        return _orig_check(self, *a, **k)
    finally:
        SOLVER["queries"] += 1
        SOLVER["seconds"] += time.perf_counter() - t


z3.Solver.check = _counting_check


class Raised:
    """Observation: the code under analysis raised `exc`."""

    def __init__(self, exc):
        self.exc = exc
        chain = []
        e = exc
        while e is not None and len(chain) < 8:
            chain.append(e)
            e = e.__cause__ or (None if e.__suppress_context__ else e.__context__)
        self.chain = chain
        root = chain[-1]
        tb = traceback.extract_tb(root.__traceback__)
        self.site = (
            f"{os.path.basename(tb[-1].filename)}:{tb[-1].name}" if tb else "?"
        )
        self.lineno = tb[-1].lineno if tb else 0
        self.root_type = type(root).__name__
        self.outer_type = type(exc).__name__

    def describe(self):
        with NoTracing():
            try:
                msg = str(deep_realize(self.chain[-1].args))[:200]
            except Exception:  # noqa
                msg = "?"
        return {
            "outer": self.outer_type,
            "root": self.root_type,
            "site": self.site,
            "line": self.lineno,
            "msg": msg,
        }


def _engine_exception(exc):
    """'alarm' / 'engine' if an exception of the analysis engine itself (wall-clock alarm that
    fired inside a ctypes call, z3 error) was swallowed and re-wrapped by the code under
    analysis (pymarkdown wraps every Exception into BadTokenizationError/BadPluginError)."""
    e = exc
    n = 0
    while e is not None and n < 8:
        name = type(e).__name__
        text = str(e)
        if "wall-clock alarm" in text or "_Alarm" in text:
            return "alarm"
        if name in ("ArgumentError", "Z3Exception", "CrossHairInternal") or isinstance(e, z3.Z3Exception):
            return "engine"
        e = e.__cause__ or e.__context__
        n += 1
    return None


def _intolerant(exc) -> bool:
    e = exc
    n = 0
    while e is not None and n < 8:
        if isinstance(e, Exception) and suspected_proxy_intolerance_exception(e):
            return True
        if isinstance(e, TypeError) and "LazyIntSymbolicStr" in str(e):
            return True
        e = e.__cause__ or e.__context__
        n += 1
    return False


class _Alarm(PathTimeout):
    pass


def _on_alarm(signum, frame):
    if os.environ.get("VERIF_DEBUG_ALARM"):
        traceback.print_stack(frame, limit=25, file=sys.stderr)
    raise _Alarm("wall-clock alarm")


class ShardResult(dict):
    pass


ENUM_THRESHOLD = 12  # realisations of one variable that mark a hashing site (DESIGN §2.7)


def explore(harness, seed=0, per_path_timeout=30.0, budget_s=600.0, hard_extra=10.0,
            max_paths=1_000_000, abort_on_enumeration=False):
    """Explore every path of `harness` and return a JSON-able result dict."""
    random.seed(seed)
    names = harness.variables()  # list of (name, "int"|"bool")
    root = RootNode()
    res = ShardResult(
        paths=0, skipped=0, decided_paths=0, inconclusive=[], candidates=[], samples=[],
        digests={}, exhausted=False, budget_exhausted=False, hard_timeouts=0, enumerating=[],
    )
    q0, s0 = SOLVER["queries"], SOLVER["seconds"]
    t_start = time.time()
    signal.signal(signal.SIGALRM, _on_alarm)
    for _ in range(max_paths):
        if time.time() - t_start > budget_s:
            res["budget_exhausted"] = True
            break
        itr_start = process_time()
        space = StateSpace(
            execution_deadline=itr_start + per_path_timeout,
            model_check_timeout=per_path_timeout / 2,
            search_root=root,
        )
        status = VerificationStatus.CONFIRMED
        with condition_parser(DEFAULT_OPTIONS.analysis_kind), Patched(), COMPOSITE_TRACER, NoTracing(), StateSpaceContext(space):
            v = {}
            for name, typ in names:
                v[name] = SymbolicInt(name) if typ == "int" else SymbolicBool(name)
            record = None
            try:
                signal.setitimer(signal.ITIMER_REAL, per_path_timeout + hard_extra)
                try:
                    with ResumedTracing():
                        try:
                            obs = harness.body(v)
                        except Exception as exc:  # user-level exception
                            eng = _engine_exception(exc)
                            if eng == "alarm":
                                raise _Alarm("wall-clock alarm (re-wrapped by the code under analysis)")
                            if eng == "engine":
                                raise CrosshairUnsupported("engine exception re-wrapped: " + repr(exc)[:200])
                            if _intolerant(exc):
                                raise CrosshairUnsupported(
                                    "proxy intolerance: " + repr(exc)[:200]
                                )
                            obs = Raised(exc)
                        if isinstance(obs, str) and obs == SKIP:
                            verdict = None
                        else:
                            verdict = harness.judge(obs, v)  # may fork
                        space.detach_path()
                finally:
                    signal.setitimer(signal.ITIMER_REAL, 0)
                res["paths"] += 1
                if verdict is None:
                    res["skipped"] += 1
                else:
                    res["decided_paths"] += 1
                    rv = deep_realize(v)
                    digest = harness.digest(deep_realize(obs) if not isinstance(obs, Raised) else obs, rv)
                    d = res["digests"]
                    d[digest] = d.get(digest, 0) + 1
                    viol = deep_realize(verdict)
                    record = {"vars": rv, "digest": digest}
                    if viol:
                        for x in viol:
                            res["candidates"].append({"vars": rv, **x})
                    else:
                        res["samples"].append(rv)
            except IgnoreAttempt:
                status = None
            except UnexploredPath as exc:
                signal.setitimer(signal.ITIMER_REAL, 0)
                status = VerificationStatus.UNKNOWN
                res["paths"] += 1
                if isinstance(exc, _Alarm):
                    res["hard_timeouts"] += 1
                kind = type(exc).__name__
                try:
                    with ResumedTracing():
                        space.detach_path(exc if isinstance(exc, PathTimeout) else PathTimeout())
                    rv = deep_realize(v)
                except BaseException as exc2:  # noqa  (model may be unavailable)
                    rv = None
                    kind += "+norealize:" + type(exc2).__name__
                res["inconclusive"].append(
                    {"vars": rv, "why": kind, "msg": str(exc)[:300]}
                )
            _analysis, exhausted = space.bubble_status(CallAnalysis(status))
        if exhausted:
            res["exhausted"] = True
            break
        if abort_on_enumeration and res["paths"] % 8 == 0:
            st = root.stats()
            hot = [str(k) for k, n in dict(st).items() if str(k).startswith("realize_") and n >= ENUM_THRESHOLD]
            if hot:
                res["enumerating"] = hot
                break
    res["wall_s"] = round(time.time() - t_start, 2)
    res["queries"] = SOLVER["queries"] - q0
    res["solver_s"] = round(SOLVER["seconds"] - s0, 2)
    st = root.stats() if root.child is not None else {}
    res["tree_stats"] = {str(k): int(val) for k, val in dict(st).items()}
    res["digests"] = [[k, n] for k, n in res["digests"].items()]
    return res
