"""Known findings (DESIGN §2.5): committed file, never written at run time.

Each entry names a *matcher* -- a reviewed predicate over (case, concrete replay result)
that pins the finding to its call site / difference class, so that a different violation of
the same property is still reported.  `fixed:` entries are documentation only and suppress
nothing.
"""
import json
import os

VERIF = os.path.dirname(os.path.dirname(os.path.abspath(__file__)))
PATH = os.path.join(VERIF, "known_findings.json")

MATCHERS = {}


def matcher(fn):
    MATCHERS[fn.__name__] = fn
    return fn


def load(prop):
    if not os.path.exists(PATH):
        return []
    data = json.load(open(PATH))
    return [e for e in data.get("findings", []) if e["property"] == prop]


def match(known, case, rr):
    for e in known:
        fn = MATCHERS.get(e["matcher"])
        if fn is None:
            continue
        try:
            if fn(case, rr, **e.get("params", {})):
                return e
        except Exception:  # noqa  a matcher that cannot evaluate does not match
            continue
    return None


# ------------------------------------------------------------------------- matchers
def _doc(rr):
    return (rr.get("observed") or {}).get("doc")


@matcher
def exception_site(case, rr, root=None, site=None, outer=None, msg_contains=None, doc_regex=None):
    """The concrete replay raised, with this root exception type at this function."""
    import re

    obs = rr.get("observed") or {}
    e = obs.get("exception") or obs.get("regen_exception")
    if not e:
        return False
    if root and e["root"] != root:
        return False
    if site and e["site"] != site:
        return False
    if outer and e["outer"] != outer:
        return False
    if msg_contains and msg_contains not in (e.get("msg") or "") and msg_contains not in (e.get("outer_msg") or ""):
        return False
    if doc_regex and not re.search(doc_regex, obs.get("doc", ""), re.S):
        return False
    return True


@matcher
def hang_on_doc(case, rr, doc_regex=None):
    import re

    if not rr.get("timeout"):
        return False
    from importlib import import_module

    mod = import_module(case["real_module"])
    doc = mod.doc_of(case)
    return bool(re.search(doc_regex, doc, re.S))
