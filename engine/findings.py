"""Known findings (DESIGN §2.5): committed file, never written at run time.

Each entry names a *matcher* -- a reviewed predicate over (case, concrete replay result)
that pins the finding to its call site / difference class, so that a different violation of
the same property is still reported.  `fixed:` entries are documentation only and suppress
nothing.
"""
import json
import os

VERIF = os.path.dirname(os.path.dirname(os.path.abspath(__file__)))
PATH = os.path.join(VERIF, "known_findings.json")

MATCHERS = {}


def matcher(fn):
    MATCHERS[fn.__name__] = fn
    return fn


def load(prop):
    if not os.path.exists(PATH):
        return []
    data = json.load(open(PATH))
    return [e for e in data.get("findings", []) if e["property"] == prop]


def match(known, case, rr):
    obs = rr.get("observed") or {}
    neutral = obs.get("neutral")
    if neutral is not None and neutral.get("violates"):
        # the document also fails with its in-band characters neutralised: classify that failure
        return match([e for e in known if e["matcher"] != "inband_char"], case, neutral)
    for e in known:
        fn = MATCHERS.get(e["matcher"])
        if fn is None:
            continue
        try:
            if fn(case, rr, **e.get("params", {})):
                return e
        except Exception:  # noqa  a matcher that cannot evaluate does not match
            continue
    return None


# ------------------------------------------------------------------------- matchers
def _doc(rr):
    return (rr.get("observed") or {}).get("doc")


@matcher
def exception_site(case, rr, root=None, site=None, outer=None, msg_contains=None, doc_regex=None):
    """The concrete replay raised, with this root exception type at this function."""
    import re

    obs = rr.get("observed") or {}
    e = obs.get("exception") or obs.get("regen_exception")
    if not e:
        return False
    if root and e["root"] != root:
        return False
    if site and e["site"] != site:
        return False
    if outer and e["outer"] != outer:
        return False
    if msg_contains and msg_contains not in (e.get("msg") or "") and msg_contains not in (e.get("outer_msg") or ""):
        return False
    if doc_regex and not re.search(doc_regex, obs.get("doc", ""), re.S):
        return False
    return True


@matcher
def hang_on_doc(case, rr, doc_regex=None):
    import re

    if not rr.get("timeout"):
        return False
    from importlib import import_module

    mod = import_module(case["real_module"])
    doc = mod.doc_of(case)
    return bool(re.search(doc_regex, doc, re.S))


@matcher
def inband_char(case, rr):
    """The document contains a character pymarkdown reserves as an in-band marker, and the same
    document with those characters replaced by 'x' does not violate."""
    obs = rr.get("observed") or {}
    n = obs.get("neutral")
    return n is not None and not n.get("violates")


@matcher
def roundtrip_diff(case, rr, doc_regex=None, diff_regex=None, detab_equal=None):
    """Round-trip difference of a given shape on a document of a given shape."""
    import re

    obs = rr.get("observed") or {}
    doc, regen = obs.get("doc"), obs.get("regen")
    if doc is None or regen is None:
        return False
    if doc_regex and not re.search(doc_regex, doc, re.S):
        return False
    if diff_regex and not re.fullmatch(diff_regex, obs.get("diff", ""), re.S):
        return False
    if detab_equal and not ("\t" in doc and regen.expandtabs(4) == doc.expandtabs(4)):
        return False
    return True


@matcher
def illformed_why(case, rr, why_regex=None, doc_regex=None):
    import re

    obs = rr.get("observed") or {}
    if not obs.get("why") or not re.search(why_regex, obs["why"]):
        return False
    return not doc_regex or bool(re.search(doc_regex, obs.get("doc", ""), re.S))


@matcher
def position_why(case, rr, why_regex=None, doc_regex=None, token=None):
    """every position violation of the replay has this shape"""
    import re

    obs = rr.get("observed") or {}
    ps = obs.get("positions") or []
    if not ps:
        return False
    for p in ps:
        if not re.search(why_regex, p.get("why", "")):
            return False
        if token and p.get("token") != token:
            return False
    return not doc_regex or bool(re.search(doc_regex, obs.get("doc", ""), re.S))


@matcher
def c09_whitespace_oscillation(case, rr, doc_regex=None, left_rules=None):
    """fix is not idempotent, but the first and second result differ only in spaces / final
    newlines, the document has the stated shape, and fix-capable failures that remain belong
    to the stated rules."""
    import re

    obs = rr.get("observed") or {}
    a, b = obs.get("after_first"), obs.get("after_second")
    if a is None or b is None:
        return False
    doc = obs.get("doc", "")
    if doc_regex and not re.search(doc_regex, doc, re.S):
        return False
    strip = lambda s: s.replace(" ", "").replace("\t", "").rstrip("\n")
    if strip(a) != strip(b):
        return False
    allowed = set(left_rules or [])
    for v in obs.get("violations") or []:
        if v["kind"] == "fixable-failure-left":
            for f in v["detail"]["left"]:
                if f[2] not in allowed:
                    return False
        elif v["kind"] not in ("second-fix-changes-file", "second-fix-reports-fixed"):
            return False
    return True


@matcher
def c10_empty_file(case, rr):
    obs = rr.get("observed") or {}
    v = obs.get("violations") or []
    return obs.get("doc") == "" and obs.get("after_fix") == "\n" and all(x["kind"] == "changed-without-fixable-failure" for x in v)


@matcher
def violation_kinds(case, rr, allowed=None, scenario=None, mode=None, err_contains=None):
    """every violation of the replayed case is of an allowed kind (and the case has the
    stated scenario / mode)"""
    obs = rr.get("observed") or {}
    v = obs.get("violations") or []
    if not v:
        return False
    p = case.get("params", {})
    if scenario and p.get("scenario") not in scenario:
        return False
    if mode and p.get("mode", "scan") != mode:
        return False
    if err_contains and not any(err_contains in e for e in obs.get("err") or [] if isinstance(e, str)):
        return False
    return all(x["kind"] in allowed for x in v)


@matcher
def c18_argv(case, rr, argv_contains=None, category=None, got=None):
    p = case.get("params", {})
    argv = p.get("argv") or []
    if any(a not in argv for a in argv_contains or []):
        return False
    if category and p.get("category") != category:
        return False
    obs = rr.get("observed") or {}
    return got is None or obs.get("code") == got


@matcher
def c11_kinds(case, rr, kinds=None, same_position=None, only_rules=None, pragma_adjacent_blank=None, doc_regex=None):
    """all violations are of the stated kinds; optionally: the differing tokens differ only in
    their (unshifted) line number / the differing failures belong to the stated rules and the
    pragma line touches a blank line"""
    obs = rr.get("observed") or {}
    v = obs.get("violations") or []
    if not v or any(x["kind"] not in kinds for x in v):
        return False
    if doc_regex:
        import re

        if not re.search(doc_regex, obs.get("with_pragma") or "", re.S):
            return False
    for x in v:
        d = x.get("detail") or {}
        if same_position and x["kind"] == "pragma-visible-to-parser":
            a, b = d.get("without"), d.get("with")
            if not (isinstance(a, list) and len(a) == 4 and a[0] == b[0] and a[2] == b[2] and a[3] == b[3] and a[1] == b[1]):
                return False
            if a[0] in ("para", "atx", "setext", "ulist", "olist", "block-quote", "fcode-block", "icode-block", "html-block", "tbreak", "BLANK", "li"):
                return False  # block tokens must shift
        if only_rules:
            for f in (d.get("unexpected") or []) + (d.get("missing") or []):
                if f[2] not in only_rules:
                    return False
    if pragma_adjacent_blank:
        lines = (obs.get("with_pragma") or "").split("\n")
        at = case["params"]["at"]
        before = lines[at - 1].strip() == "" if at > 0 else False
        after = lines[at + 1].strip() == "" if at + 1 < len(lines) else False
        if not (before or after):
            return False
    return True


@matcher
def c06_md009_tab(case, rr):
    """MD009 verdict differs only on lines whose trailing spaces are directly preceded by
    whitespace that contains a TAB."""
    import re

    obs = rr.get("observed") or {}
    if case["params"].get("rule") != "md009":
        return False
    lines = (obs.get("doc") or "").split("\n")
    got, want = set(obs.get("reported") or []), set(obs.get("documented") or [])
    diff = got ^ want
    if not diff:
        return False
    return all(re.search(r"\t[ \t]* +$", lines[ln - 1]) for ln in diff)


def _fp_diff(obs):
    v = (obs.get("violations") or [{}])[0].get("detail") or {}
    return v.get("before") or [], v.get("after") or []


@matcher
def c08_tab_in_code(case, rr):
    """fingerprints differ only in code-block content, the document contains a TAB, and the
    code contents are equal once tabs are replaced by spaces and space runs are collapsed"""
    import re

    obs = rr.get("observed") or {}
    if "\t" not in (obs.get("doc") or ""):
        return False
    b, a = _fp_diff(obs)
    if len(a) != len(b):
        return False
    sq = lambda s: re.sub(r"[ \t]+", " ", s)
    diff = False
    for x, y in zip(b, a):
        if x != y:
            if not (isinstance(x, list) and isinstance(y, list) and x[0] == "code" and y[0] == "code" and sq(x[2]) == sq(y[2])):
                return False
            diff = True
    return diff


@matcher
def c08_blank_codespan(case, rr):
    """a code span whose content is empty after trimming disappears when fixed"""
    obs = rr.get("observed") or {}
    b, a = _fp_diff(obs)
    return any(isinstance(x, list) and x[0] == "codespan" and x[1] == "" for x in b) and not any(isinstance(x, list) and x[0] == "codespan" and x[1] == "" for x in a)


@matcher
def html_diff(case, rr, doc_regex=None, pym_regex=None):
    import re

    obs = rr.get("observed") or {}
    if doc_regex and not re.search(doc_regex, obs.get("doc") or "", re.S):
        return False
    if pym_regex and not re.search(pym_regex, obs.get("pymarkdown") or "", re.S):
        return False
    return True


@matcher
def c16_cr_translation(case, rr):
    """fixed texts of two entry points differ only by the translation of CR / CR-LF line
    endings to LF"""
    obs = rr.get("observed") or {}
    if "\r" not in (obs.get("doc") or ""):
        return False
    v = obs.get("violations") or []
    if not v:
        return False
    tr = lambda t: t.replace("\r\n", "\n").replace("\r", "\n")
    for x in v:
        if x["kind"] != "fixed-text-disagrees":
            return False
        d = x["detail"]
        if tr(d["a_text"]) != tr(d["b_text"]):
            return False
    return True


@matcher
def roundtrip_ws_only(case, rr, doc_regex=None):
    """regenerated text and source are equal once every space and TAB is removed"""
    import re

    obs = rr.get("observed") or {}
    doc, regen = obs.get("doc"), obs.get("regen")
    if doc is None or regen is None:
        return False
    if doc_regex and not re.search(doc_regex, doc, re.S):
        return False
    strip = lambda s: s.replace(" ", "").replace("\t", "")
    return strip(doc) == strip(regen)


@matcher
def roundtrip_any(case, rr, doc_regex=None):
    """any round-trip failure (difference or regenerator exception) on a document of this shape"""
    import re

    obs = rr.get("observed") or {}
    doc = obs.get("doc")
    if doc is None or not (obs.get("regen") is not None or obs.get("regen_exception")):
        return False
    return bool(re.search(doc_regex, doc, re.S))


@matcher
def c07_plugin_error(case, rr, rule=None, doc_regex=None):
    import re

    obs = rr.get("observed") or {}
    v = obs.get("violations") or []
    if not v or any(x["kind"] != "plugin-error" for x in v):
        return False
    errs = " ".join(e for x in v for e in (x.get("detail") or {}).get("err", []))
    if rule and f"Plugin id '{rule}'" not in errs:
        return False
    return not doc_regex or bool(re.search(doc_regex, obs.get("doc") or "", re.S))


@matcher
def c06_lines(case, rr, rule=None, line_regex=None):
    """the verdict differs only on lines of the given shape"""
    import re

    obs = rr.get("observed") or {}
    if case["params"].get("rule") != rule:
        return False
    lines = (obs.get("doc") or "").split("\n")
    diff = set(obs.get("reported") or []) ^ set(obs.get("documented") or [])
    return bool(diff) and all(0 < ln <= len(lines) and re.search(line_regex, lines[ln - 1]) for ln in diff)


@matcher
def c08_list_restructure(case, rr, doc_regex=None):
    """the fix keeps every content element (text, code, links ...) in order and only moves list /
    list-item / paragraph boundaries, on a document whose list marker is followed by two or
    more spaces"""
    import re

    obs = rr.get("observed") or {}
    if doc_regex and not re.search(doc_regex, obs.get("doc") or "", re.S):
        return False
    b, a = _fp_diff(obs)
    structural = {"ul", "/ul", "ol", "/ol", "li", "/li", "p", "/p"}
    content = lambda fp: [x for x in fp if not (isinstance(x, str) and x in structural)]
    return bool(b) and b != a and content(b) == content(a)


@matcher
def c16_temp_left_after_error(case, rr):
    """a temporary file is left behind, and at least one entry point failed on this document
    (parser / plugin error): the clean-up is skipped on the error path"""
    obs = rr.get("observed") or {}
    v = obs.get("violations") or []
    if not v or any(x["kind"] != "temp-file-left" for x in v):
        return False
    routes = obs.get("routes") or {}
    return any(val is None for val in routes.values()) or bool(obs.get("fix_routes_failed"))


@matcher
def kinds_on_doc(case, rr, allowed=None, doc_regex=None):
    """every violation is of an allowed kind and the document has the stated shape"""
    import re

    obs = rr.get("observed") or {}
    v = obs.get("violations") or []
    if not v or any(x["kind"] not in allowed for x in v):
        return False
    return bool(re.search(doc_regex, obs.get("doc") or "", re.S))
