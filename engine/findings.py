"""Known findings (DESIGN §2.5): committed file, never written at run time.

Each entry names a *matcher* -- a reviewed predicate over (case, concrete replay result)
that pins the finding to its call site / difference class, so that a different violation of
the same property is still reported.  `fixed:` entries are documentation only and suppress
nothing.
"""
import json
import os

VERIF = os.path.dirname(os.path.dirname(os.path.abspath(__file__)))
PATH = os.path.join(VERIF, "known_findings.json")

MATCHERS = {}


def matcher(fn):
    MATCHERS[fn.__name__] = fn
    return fn


def load(prop):
    if not os.path.exists(PATH):
        return []
    data = json.load(open(PATH))
    return [e for e in data.get("findings", []) if e["property"] == prop]


def match(known, case, rr):
    obs = rr.get("observed") or {}
    neutral = obs.get("neutral")
    if neutral is not None and neutral.get("violates"):
        # the document also fails with its in-band characters neutralised: classify that failure
        return match([e for e in known if e["matcher"] != "inband_char"], case, neutral)
    for e in known:
        fn = MATCHERS.get(e["matcher"])
        if fn is None:
            continue
        try:
            if fn(case, rr, **e.get("params", {})):
                return e
        except Exception:  # noqa  a matcher that cannot evaluate does not match
            continue
    return None


# ------------------------------------------------------------------------- matchers
def _doc(rr):
    return (rr.get("observed") or {}).get("doc")


@matcher
def exception_site(case, rr, root=None, site=None, outer=None, msg_contains=None, doc_regex=None):
    """The concrete replay raised, with this root exception type at this function."""
    import re

    obs = rr.get("observed") or {}
    e = obs.get("exception") or obs.get("regen_exception")
    if not e:
        return False
    if root and e["root"] != root:
        return False
    if site and e["site"] != site:
        return False
    if outer and e["outer"] != outer:
        return False
    if msg_contains and msg_contains not in (e.get("msg") or "") and msg_contains not in (e.get("outer_msg") or ""):
        return False
    if doc_regex and not re.search(doc_regex, obs.get("doc", ""), re.S):
        return False
    return True


@matcher
def hang_on_doc(case, rr, doc_regex=None):
    import re

    if not rr.get("timeout"):
        return False
    from importlib import import_module

    mod = import_module(case["real_module"])
    doc = mod.doc_of(case)
    return bool(re.search(doc_regex, doc, re.S))


@matcher
def inband_char(case, rr):
    """The document contains a character pymarkdown reserves as an in-band marker, and the same
    document with those characters replaced by 'x' does not violate."""
    obs = rr.get("observed") or {}
    n = obs.get("neutral")
    return n is not None and not n.get("violates")


@matcher
def roundtrip_diff(case, rr, doc_regex=None, diff_regex=None, detab_equal=None):
    """Round-trip difference of a given shape on a document of a given shape."""
    import re

    obs = rr.get("observed") or {}
    doc, regen = obs.get("doc"), obs.get("regen")
    if doc is None or regen is None:
        return False
    if doc_regex and not re.search(doc_regex, doc, re.S):
        return False
    if diff_regex and not re.fullmatch(diff_regex, obs.get("diff", ""), re.S):
        return False
    if detab_equal and not ("\t" in doc and regen.expandtabs(4) == doc.expandtabs(4)):
        return False
    return True


@matcher
def illformed_why(case, rr, why_regex=None, doc_regex=None):
    import re

    obs = rr.get("observed") or {}
    if not obs.get("why") or not re.search(why_regex, obs["why"]):
        return False
    return not doc_regex or bool(re.search(doc_regex, obs.get("doc", ""), re.S))


@matcher
def position_why(case, rr, why_regex=None, doc_regex=None, token=None):
    """every position violation of the replay has this shape"""
    import re

    obs = rr.get("observed") or {}
    ps = obs.get("positions") or []
    if not ps:
        return False
    for p in ps:
        if not re.search(why_regex, p.get("why", "")):
            return False
        if token and p.get("token") != token:
            return False
    return not doc_regex or bool(re.search(doc_regex, obs.get("doc", ""), re.S))


@matcher
def c09_whitespace_oscillation(case, rr, doc_regex=None, left_rules=None):
    """fix is not idempotent, but the first and second result differ only in spaces / final
    newlines, the document has the stated shape, and fix-capable failures that remain belong
    to the stated rules."""
    import re

    obs = rr.get("observed") or {}
    a, b = obs.get("after_first"), obs.get("after_second")
    if a is None or b is None:
        return False
    doc = obs.get("doc", "")
    if doc_regex and not re.search(doc_regex, doc, re.S):
        return False
    strip = lambda s: s.replace(" ", "").replace("\t", "").rstrip("\n")
    if strip(a) != strip(b):
        return False
    allowed = set(left_rules or [])
    for v in obs.get("violations") or []:
        if v["kind"] == "fixable-failure-left":
            for f in v["detail"]["left"]:
                if f[2] not in allowed:
                    return False
        elif v["kind"] not in ("second-fix-changes-file", "second-fix-reports-fixed"):
            return False
    return True


@matcher
def c10_empty_file(case, rr):
    obs = rr.get("observed") or {}
    v = obs.get("violations") or []
    return obs.get("doc") == "" and obs.get("after_fix") == "\n" and all(x["kind"] == "changed-without-fixable-failure" for x in v)


@matcher
def violation_kinds(case, rr, allowed=None, scenario=None, mode=None, err_contains=None):
    """every violation of the replayed case is of an allowed kind (and the case has the
    stated scenario / mode)"""
    obs = rr.get("observed") or {}
    v = obs.get("violations") or []
    if not v:
        return False
    p = case.get("params", {})
    if scenario and p.get("scenario") not in scenario:
        return False
    if mode and p.get("mode", "scan") != mode:
        return False
    if err_contains and not any(err_contains in e for e in obs.get("err") or [] if isinstance(e, str)):
        return False
    return all(x["kind"] in allowed for x in v)


@matcher
def c18_argv(case, rr, argv_contains=None, category=None, got=None):
    p = case.get("params", {})
    argv = p.get("argv") or []
    if any(a not in argv for a in argv_contains or []):
        return False
    if category and p.get("category") != category:
        return False
    obs = rr.get("observed") or {}
    return got is None or obs.get("code") == got
