"""Orchestration of one check: shards -> symbolic exploration (pool) -> concrete replay of
candidates on the unmodified code -> known-finding matching -> evidence + exit code."""
import hashlib
import json
import os
import sys
import time

from engine import findings, pool, replay

VERIF = os.path.dirname(os.path.dirname(os.path.abspath(__file__)))
EXIT_OK, EXIT_VIOLATION, EXIT_HARNESS = 0, 1, 3
MAX_REPLAY = int(os.environ.get("VERIF_MAX_REPLAY", "6000"))


def _sha(obj):
    return hashlib.sha1(json.dumps(obj, sort_keys=True, default=repr).encode()).hexdigest()[:16]


def _chunks(xs, n):
    k = max(1, (len(xs) + n - 1) // n)
    return [xs[i : i + k] for i in range(0, len(xs), k)]


def _parallel_replay(cases, nproc=12):
    if len(cases) <= 40:
        return replay.run_replays(cases)
    import threading

    parts = _chunks(cases, nproc)
    outs = [None] * len(parts)

    def go(i):
        outs[i] = replay.run_replays(parts[i])

    ts = [threading.Thread(target=go, args=(i,)) for i in range(len(parts))]
    for t in ts:
        t.start()
    for t in ts:
        t.join()
    res = []
    for o in outs:
        res.extend(o)
    return res


def run_check(spec, tier, seed, log=print):
    t0 = time.time()
    space = tier
    if tier == "thorough":
        from checks.specs import THOROUGH_VERIFIED

        if spec.prop not in THOROUGH_VERIFIED and not os.environ.get("VERIF_FORCE_THOROUGH"):
            space = "quick"
    jobs = spec.shards(space)
    if os.environ.get("VERIF_ONLY"):  # development aid: run only the shards whose parameters mention this text
        jobs = [j for j in jobs if os.environ["VERIF_ONLY"] in json.dumps(j["params"])]
    if space != tier:
        for j in jobs:
            j["budget_s"] = j.get("budget_s", 600.0) * 2
    for j in jobs:
        j.setdefault("seed", seed)
        j.setdefault("module", spec.sym_module)
    # longest first: more symbolic cells, then longer documents
    jobs.sort(key=lambda j: (-len(j["params"].get("holes", [])), -len(j["params"].get("skeleton", ""))))
    # profile a few shards for functions_encoded
    step = max(1, len(jobs) // 8)
    for i in range(0, len(jobs), step):
        jobs[i]["profile"] = True

    def progress(done, total, r):
        if os.environ.get("VERIF_PROGRESS"):
            j = r.get("job", {})
            log(f"  [{done}/{total}] {json.dumps(j.get('params'))[:100]} ok={r.get('ok')} paths={r.get('paths')} exh={r.get('exhausted')} cand={len(r.get('candidates', []))} {r.get('wall_s')}s", file=sys.stderr)

    results = pool.run_jobs(jobs, progress=progress)

    # ---------------------------------------------------------------- collect
    shards = []
    cases = []  # everything to replay concretely
    totals = dict(paths=0, decided=0, skipped=0, queries=0, solver_s=0.0, inconclusive=0)
    digests = set()
    functions = {}
    samples_out = []
    harness_errors = []
    crashed = []  # shards whose worker died / exceeded the wall cap: undecided, not an error by itself
    srcload_stats = None
    for r in results:
        job = r["job"]
        if not r.get("ok"):
            shards.append({"params": job["params"], "harness": job["harness"], "decided": False, "error": r.get("error", "")[-400:]})
            crashed.append(f"shard crashed: {json.dumps(job['params'])[:120]}: {r.get('error', '')[-200:]}")
            continue
        srcload_stats = r.get("srcload") or srcload_stats
        totals["paths"] += r["paths"]
        totals["decided"] += r["decided_paths"]
        totals["skipped"] += r["skipped"]
        totals["queries"] += r["queries"]
        totals["solver_s"] += r["solver_s"]
        totals["inconclusive"] += len(r["inconclusive"])
        for d, _n in r["digests"]:
            digests.add(d)
        for k, n in (r.get("functions") or {}).items():
            functions[k] = functions.get(k, 0) + n
        decided = bool(r["exhausted"]) and not r["inconclusive"]
        shards.append({
            "harness": job["harness"], "params": job["params"], "paths": r["paths"],
            "exhausted": r["exhausted"], "decided": decided,
            "inconclusive_paths": len(r["inconclusive"]), "hard_timeouts": r["hard_timeouts"],
            "candidates": len(r["candidates"]), "queries": r["queries"], "solver_s": r["solver_s"],
            "wall_s": r["wall_s"], "budget_exhausted": r["budget_exhausted"],
            "tree_stats": r.get("tree_stats"),
        })
        real_module = job.get("real_module", spec.real_module)
        for c in r["candidates"]:
            cases.append({"origin": "candidate", "real_module": real_module, "harness": job["harness"],
                          "params": job["params"], "vars": c["vars"], "kind": c["kind"], "detail": c.get("detail")})
        for inc in r["inconclusive"]:
            if inc.get("vars") is not None:
                cases.append({"origin": "inconclusive", "real_module": real_module, "harness": job["harness"],
                              "params": job["params"], "vars": inc["vars"], "kind": "inconclusive:" + inc["why"], "detail": {"msg": inc.get("msg")}})
        for s in r["samples"]:
            cases.append({"origin": "witness", "real_module": real_module, "harness": job["harness"],
                          "params": job["params"], "vars": s, "kind": "witness", "detail": None})
        for s in r["samples"][:2]:
            if len(samples_out) < 40:
                samples_out.append({"params": job["params"], "vars": s, "verdict": "holds"})

    # ---------------------------------------------------------------- replay
    # de-duplicate identical concrete cases
    seen = {}
    uniq = []
    for c in cases:
        k = _sha([c["harness"], c["params"], c["vars"]])
        c["key"] = k
        if k in seen:
            if c["origin"] == "candidate" and seen[k]["origin"] != "candidate":
                seen[k].update(origin="candidate", kind=c["kind"], detail=c["detail"])
            continue
        seen[k] = c
        uniq.append(c)
    cands = [c for c in uniq if c["origin"] != "witness"]
    wits = [c for c in uniq if c["origin"] == "witness"]
    room = max(0, min(MAX_REPLAY, getattr(spec, "max_witness_replays", MAX_REPLAY)) - len(cands))
    unreplayed_witnesses = max(0, len(wits) - room)
    to_replay = cands[:MAX_REPLAY] + wits[:room]
    unreplayed_candidates = max(0, len(cands) - MAX_REPLAY)
    rres = _parallel_replay(to_replay)

    known = findings.load(spec.prop)
    known_hits = {}
    violations = []
    reproduced = 0
    not_reproduced = []
    witness_mismatch = 0
    for c, rr in zip(to_replay, rres):
        rr = rr or {"violates": None, "replay_error": "no result", "observed": {}}
        c["replay"] = rr
        viol = spec.is_violation(c, rr)  # True / False / None (replay could not decide)
        if c["origin"] == "witness":
            if not viol:
                continue
            witness_mismatch += 1  # real code violates where the symbolic path said it holds
        elif c["origin"] == "inconclusive":
            if not viol:
                continue
        else:
            if viol is None:
                harness_errors.append(f"replay failed for {json.dumps(c['vars'])}: {rr.get('replay_error', rr)!s:.300}")
                continue
            if not viol:
                not_reproduced.append(c)
                continue
        reproduced += 1
        kf = findings.match(known, c, rr)
        if kf is not None:
            known_hits.setdefault(kf["id"], {"entry": kf, "n": 0, "example": c})
            known_hits[kf["id"]]["n"] += 1
        else:
            violations.append(c)

    if os.environ.get("VERIF_DUMP"):
        with open(os.environ["VERIF_DUMP"], "w") as f:
            for c in to_replay:
                if c.get("replay") and spec.is_violation(c, c["replay"]):
                    f.write(json.dumps({"readable": spec.readable(c), "kind": c["kind"], "origin": c["origin"], "sig": spec.signature(c, c["replay"]), "params": c["params"], "vars": c["vars"], "observed": c["replay"].get("observed"), "timeout": c["replay"].get("timeout", False)}, default=repr) + "\n")
    for c in not_reproduced[:10]:
        harness_errors.append("candidate does not reproduce on the real code: " + json.dumps({"params": c["params"], "vars": c["vars"], "kind": c["kind"], "detail": c["detail"], "observed": c["replay"].get("observed")}, default=repr)[:600])

    # ---------------------------------------------------------------- report
    out_lines = []
    for kid, h in sorted(known_hits.items()):
        out_lines.append(f"KNOWN-FINDING: property={spec.prop} {kid}: {h['entry']['description']} ({h['n']} case(s) in this run)")
    replay_dir = os.path.join(VERIF, "replays", spec.prop)
    vio_paths = []
    if violations:
        os.makedirs(replay_dir, exist_ok=True)
        # one VIOLATION line per distinct failure signature, at most 10 files
        sigs = {}
        for c in violations:
            sig = spec.signature(c, c["replay"])
            sigs.setdefault(sig, []).append(c)
        for sig, cs in list(sigs.items())[:10]:
            c = cs[0]
            body = {"property": spec.prop, "real_module": c["real_module"], "harness": c["harness"], "params": c["params"],
                    "vars": c["vars"], "kind": c["kind"], "detail": c["detail"], "observed": c["replay"].get("observed"),
                    "timeout": c["replay"].get("timeout", False), "signature": sig, "similar_cases": len(cs),
                    "readable": spec.readable(c)}
            p = os.path.join(replay_dir, _sha(body) + ".json")
            with open(p, "w") as f:
                json.dump(body, f, indent=1, default=repr)
            vio_paths.append(p)
            out_lines.append(f"VIOLATION property={spec.prop} replay={p}")

    undecided = [s for s in shards if not s["decided"]]
    if shards and (len(crashed) * 4 > len(shards) or not any(s["decided"] for s in shards)):
        harness_errors.extend(crashed[:10] or ["no shard could be decided"])
    wall = round(time.time() - t0, 1)
    func_list = sorted(functions.items(), key=lambda kv: -kv[1])
    coverage = {
        "evaluations": totals["paths"],
        "distinct_nontrivial": len(digests),
        "rule": spec.rule_text,
        "samples": samples_out[:25] or [{"note": "no holding path"}],
        "states": totals["paths"],
        "transitions": totals["queries"],
        "traces_validated_against_impl": len(to_replay),
        "exhaustive": not undecided,
        "engine": "CrossHair 0.0.110 path exploration + z3 (every branch and the final assertion decided by the solver)",
        "functions_encoded": [k for k, _ in func_list][:400],
        "functions_encoded_count": len(func_list),
        "bounds": spec.bounds_text(space),
        "space_explored": space if space == tier else "quick space with doubled shard budgets (the enlarged thorough space of this check is built but not yet triaged on the unchanged tree; see checks/specs.py THOROUGH_VERIFIED)",
        "shards_total": len(shards),
        "shards_decided": len(shards) - len(undecided),
        "undecided_shards": [{"params": s["params"], "why": s.get("error") or f"exhausted={s.get('exhausted')} inconclusive_paths={s.get('inconclusive_paths')} budget_exhausted={s.get('budget_exhausted')}"} for s in undecided][:60],
        "paths_decided": totals["decided"],
        "paths_precondition_false": totals["skipped"],
        "paths_inconclusive": totals["inconclusive"],
        "queries": totals["queries"],
        "solver_s": round(totals["solver_s"], 1),
        "candidates": len(cands),
        "replayed": len(to_replay),
        "reproduced": reproduced,
        "not_reproduced": len(not_reproduced),
        "witness_replays_disagreeing": witness_mismatch,
        "unreplayed_candidates": unreplayed_candidates,
        "unreplayed_witnesses": unreplayed_witnesses,
        "known_findings_hit": {k: h["n"] for k, h in known_hits.items()},
        "new_violations": len(violations),
        "violation_replays": vio_paths,
        "harness_errors": harness_errors[:20],
        "stubs": spec.stubs,
        "cuts": spec.cuts,
        "outside_claim": spec.outside,
        "srcload": srcload_stats,
        "shards": shards if len(shards) <= 80 else shards[:80],
    }
    evidence = {
        "property_id": spec.prop,
        "tier": tier,
        "seed": seed,
        "level": "model_checking",
        "coverage": coverage,
        "assumptions": spec.assumptions,
        "wall_s": wall,
        "violations": len(violations),
    }
    evdir = os.environ.get("VERIF_EVIDENCE_DIR") or os.path.join(VERIF, "evidence")
    os.makedirs(evdir, exist_ok=True)
    with open(os.path.join(evdir, spec.prop + ".json"), "w") as f:
        json.dump(evidence, f, indent=1, default=repr)

    for line in out_lines:
        log(line)
    log(f"{spec.prop} [{tier}] shards={len(shards)} decided={len(shards) - len(undecided)} paths={totals['paths']} "
        f"queries={totals['queries']} solver_s={totals['solver_s']:.0f} candidates={len(cands)} reproduced={reproduced} "
        f"known={sum(h['n'] for h in known_hits.values())} new={len(violations)} not_reproduced={len(not_reproduced)} wall={wall}s")
    if violations:
        return EXIT_VIOLATION
    if harness_errors:
        for h in harness_errors[:10]:
            log("HARNESS-ERROR: " + h[:500])
        return EXIT_HARNESS
    return EXIT_OK


def replay_file(spec, path, log=print):
    body = json.load(open(path))
    case = {"origin": "candidate", "real_module": body["real_module"], "harness": body["harness"], "params": body["params"],
            "vars": body["vars"], "kind": body["kind"], "detail": body.get("detail")}
    rr = replay.run_replays([case])[0]
    viol = spec.is_violation(case, rr)
    log(json.dumps({"readable": spec.readable(case), "violates": viol, "observed": rr.get("observed"), "timeout": rr.get("timeout", False)}, indent=1, default=repr))
    if viol:
        log(f"VIOLATION property={spec.prop} replay={path}")
        return EXIT_VIOLATION
    return EXIT_OK
