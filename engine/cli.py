import argparse
import os
import sys


def main():
    ap = argparse.ArgumentParser()
    ap.add_argument("prop")
    ap.add_argument("--tier", default=os.environ.get("VERIF_TIER", "quick"), choices=["quick", "thorough"])
    ap.add_argument("--replay")
    a = ap.parse_args()
    seed = int(os.environ.get("VERIF_SEED", "0") or 0)
    from checks.specs import SPECS
    from engine import runner

    spec = SPECS[a.prop]
    if a.replay:
        sys.exit(runner.replay_file(spec, a.replay))
    sys.exit(runner.run_check(spec, a.tier, seed))


if __name__ == "__main__":
    main()
