"""Worker process: reads shard jobs (one JSON object per line) on stdin, explores each with
CrossHair, writes one JSON result per line on the original stdout."""
import importlib
import json
import os
import sys
import time
import traceback


def main():
    out = os.fdopen(os.dup(1), "w")
    os.dup2(2, 1)  # anything the code under analysis prints goes to stderr
    sys.stdout = sys.stderr
    sys.setrecursionlimit(10000)
    from engine import env  # noqa: F401  installs the import hook first
    from engine import driver

    out.write(json.dumps({"ready": True, "srcload": _srcstats()}) + "\n")
    out.flush()
    for line in sys.stdin:
        line = line.strip()
        if not line:
            continue
        job = json.loads(line)
        t = time.time()
        try:
            mod = importlib.import_module(job["module"])
            harness = mod.HARNESSES[job["harness"]](job["params"])
            kw = dict(seed=job.get("seed", 0), per_path_timeout=job.get("per_path_timeout", 30.0),
                      budget_s=job.get("budget_s", 600.0))
            can_restrict = hasattr(harness, "restrict_domain") and not job["params"].get("domain")
            res = driver.explore(harness, abort_on_enumeration=can_restrict, **kw)
            if can_restrict and not res["exhausted"] and (res["enumerating"] or _hot(res)):
                # DESIGN 2.7: a hashing site realises this cell -> finite stated alphabet
                first = res
                job["params"] = dict(job["params"], domain="finite")
                harness = mod.HARNESSES[job["harness"]](job["params"])
                res = driver.explore(harness, **kw)
                res["restricted_after"] = {"paths": first["paths"], "tree_stats": first["tree_stats"], "wall_s": first["wall_s"]}
                res["queries"] += first["queries"]
                res["solver_s"] += first["solver_s"]
                # candidates found over the unrestricted domain are still candidates
                res["candidates"].extend(first["candidates"])
            res["functions"] = _functions(harness, res) if job.get("profile") else {}
            res["ok"] = True
        except BaseException as exc:  # noqa
            res = {"ok": False, "error": "".join(traceback.format_exception(exc))[-3000:]}
        res["job"] = job
        res["worker_wall_s"] = round(time.time() - t, 2)
        res["srcload"] = _srcstats()
        out.write(json.dumps(res, default=_default) + "\n")
        out.flush()


def _hot(res):
    return [k for k, n in (res.get("tree_stats") or {}).items() if k.startswith("realize_") and n >= 4]


def _default(o):
    if isinstance(o, (set, frozenset)):
        return sorted(o)
    if isinstance(o, tuple):
        return list(o)
    return repr(o)


def _srcstats():
    from engine import srcload

    return {k: v for k, v in srcload.STATS.items() if k != "kept_sites"}


def _functions(harness, res):
    """pymarkdown functions entered when the path witnesses are re-run concretely (same
    harness body, no tracing) -- the list reported as `functions_encoded`."""
    seen = {}
    root = os.environ.get("VERIF_REPO", "/repo")

    def prof(frame, event, arg):
        if event == "call":
            fn = frame.f_code.co_filename
            if fn.startswith(root) or "application_properties" in fn:
                key = os.path.relpath(fn, root) + ":" + frame.f_code.co_qualname
                seen[key] = seen.get(key, 0) + 1

    cases = [s for s in res["samples"]][:12] + [c["vars"] for c in res["candidates"]][:6]
    for rv in cases:
        sys.setprofile(prof)
        try:
            harness.body(dict(rv))
        except BaseException:  # noqa
            pass
        finally:
            sys.setprofile(None)
    return seen


if __name__ == "__main__":
    main()
