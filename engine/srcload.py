"""Import hook: compile pymarkdown / application_properties from the *current* source
under /repo (never from cached byte code) with side-effect-free logging statements removed.

DESIGN §2.2.  The code that is symbolically executed is therefore regenerated from
/repo's working tree on every run.
"""
import ast
import importlib.abc
import importlib.machinery
import os
import sys

LOGNAMES = {"POGGER", "LOGGER"}
LOGMETH = {
    "debug",
    "info",
    "warning",
    "error",
    "critical",
    "exception",
    "debug_with_visible_whitespace",
}
# calls allowed inside a logging argument for the statement to count as pure
PURE_CALLS = {
    "str",
    "len",
    "repr",
    "bool",
    "int",
    "type",
    "isinstance",
    "id",
    "hex",
    "make_value_visible",
    "make_whitespace_visible",
    "replace",
    "join",
    "get",
    "keys",
    "values",
    "items",
    "format",
    "strip",
    "split",
    "lower",
    "upper",
    "count",
    "startswith",
    "endswith",
    # read: both only format / test private fields
    "show_process_emphasis",
    "is_leaf_tokens_empty",
}

STATS = {"stripped": 0, "kept": 0, "modules": 0, "kept_sites": []}
ROOTS = ("pymarkdown", "application_properties")


def _pure(n) -> bool:
    if n is None or isinstance(n, (ast.Name, ast.Constant)):
        return True
    if isinstance(n, ast.Attribute):
        return _pure(n.value)
    if isinstance(n, ast.Subscript):
        return _pure(n.value) and _pure(n.slice)
    if isinstance(n, ast.Slice):
        return _pure(n.lower) and _pure(n.upper) and _pure(n.step)
    if isinstance(n, ast.JoinedStr):
        return all(_pure(v) for v in n.values)
    if isinstance(n, ast.FormattedValue):
        return _pure(n.value)
    if isinstance(n, (ast.Tuple, ast.List)):
        return all(_pure(e) for e in n.elts)
    if isinstance(n, ast.BinOp):
        return _pure(n.left) and _pure(n.right)
    if isinstance(n, ast.UnaryOp):
        return _pure(n.operand)
    if isinstance(n, ast.Compare):
        return _pure(n.left) and all(_pure(c) for c in n.comparators)
    if isinstance(n, ast.BoolOp):
        return all(_pure(v) for v in n.values)
    if isinstance(n, ast.IfExp):
        return _pure(n.test) and _pure(n.body) and _pure(n.orelse)
    if isinstance(n, ast.Call):
        f = n.func
        if isinstance(f, ast.Name):
            name = f.id
        elif isinstance(f, ast.Attribute):
            name = f.attr
            if not _pure(f.value):
                return False
        else:
            return False
        if name not in PURE_CALLS:
            return False
        return all(_pure(a) for a in n.args) and all(
            _pure(k.value) for k in n.keywords
        )
    return False


class _Strip(ast.NodeTransformer):
    def __init__(self, path):
        self.path = path

    def visit_Expr(self, node):
        v = node.value
        if (
            isinstance(v, ast.Call)
            and isinstance(v.func, ast.Attribute)
            and v.func.attr in LOGMETH
            and isinstance(v.func.value, ast.Name)
            and v.func.value.id in LOGNAMES
        ):
            if all(_pure(a) for a in v.args) and all(
                _pure(k.value) for k in v.keywords
            ):
                STATS["stripped"] += 1
                return ast.copy_location(ast.Pass(), node)
            STATS["kept"] += 1
            STATS["kept_sites"].append(f"{os.path.basename(self.path)}:{node.lineno}")
        return node


class _Loader(importlib.machinery.SourceFileLoader):
    def source_to_code(self, data, path, *, _optimize=-1):
        tree = ast.parse(data, filename=path)
        tree = _Strip(path).visit(tree)
        ast.fix_missing_locations(tree)
        STATS["modules"] += 1
        return compile(tree, path, "exec", dont_inherit=True, optimize=_optimize)

    def get_code(self, fullname):
        # never use cached .pyc: always compile the source as it is now
        path = self.get_filename(fullname)
        return self.source_to_code(self.get_data(path), path)


class _Finder(importlib.abc.MetaPathFinder):
    def find_spec(self, fullname, path, target=None):
        if fullname.split(".")[0] not in ROOTS:
            return None
        spec = importlib.machinery.PathFinder.find_spec(fullname, path)
        if spec and spec.origin and spec.origin.endswith(".py"):
            spec.loader = _Loader(fullname, spec.origin)
        return spec


_installed = False


def install(repo="/repo"):
    """Install the hook; `repo` is put first on sys.path so pymarkdown comes from there."""
    global _installed
    if _installed:
        return
    _installed = True
    sys.dont_write_bytecode = True
    if repo not in sys.path:
        sys.path.insert(0, repo)
    for name in list(sys.modules):
        if name.split(".")[0] in ROOTS:
            raise RuntimeError(f"{name} imported before srcload.install()")
    sys.meta_path.insert(0, _Finder())
