"""Process pool of long-lived workers fed with shard jobs; a job that exceeds its wall cap
kills (and replaces) its worker and is recorded as crashed (inconclusive)."""
import json
import os
import queue
import select
import subprocess
import sys
import threading
import time

VERIF = os.path.dirname(os.path.dirname(os.path.abspath(__file__)))
PY = os.path.join(VERIF, ".venv", "bin", "python")


class _Worker:
    def __init__(self, env):
        self.env = env
        self.spawn()

    def spawn(self):
        self.p = subprocess.Popen(
            [PY, "-m", "engine.worker"],
            cwd=VERIF,
            stdin=subprocess.PIPE,
            stdout=subprocess.PIPE,
            stderr=subprocess.DEVNULL if not os.environ.get("VERIF_DEBUG") else None,
            env=self.env,
            text=True,
            bufsize=1,
        )
        self.ready = self._readline(120)

    def _readline(self, timeout):
        deadline = time.time() + timeout
        buf = ""
        fd = self.p.stdout.fileno()
        while True:
            left = deadline - time.time()
            if left <= 0:
                return None
            r, _, _ = select.select([fd], [], [], min(left, 1.0))
            if r:
                line = self.p.stdout.readline()
                if not line:
                    return None  # EOF: worker died
                buf += line
                if buf.endswith("\n"):
                    try:
                        return json.loads(buf)
                    except json.JSONDecodeError:
                        buf = ""
            elif self.p.poll() is not None:
                return None

    def run(self, job):
        cap = job.get("budget_s", 600.0) + job.get("per_path_timeout", 30.0) * 3 + 60
        try:
            self.p.stdin.write(json.dumps(job) + "\n")
            self.p.stdin.flush()
        except (BrokenPipeError, OSError):
            self.kill()
            self.spawn()
            return {"ok": False, "error": "worker pipe broken", "job": job}
        res = self._readline(cap)
        if res is None:
            rc = self.p.poll()
            self.kill()
            self.spawn()
            return {
                "ok": False,
                "error": f"worker died or exceeded wall cap {cap:.0f}s (rc={rc})",
                "job": job,
            }
        return res

    def kill(self):
        try:
            self.p.kill()
            self.p.wait(10)
        except Exception:  # noqa
            pass

    def close(self):
        try:
            self.p.stdin.close()
            self.p.wait(5)
        except Exception:  # noqa
            self.kill()


def run_jobs(jobs, nproc=None, progress=None):
    """Run all jobs; returns results in job order."""
    nproc = nproc or int(os.environ.get("VERIF_NPROC", "0")) or min(16, os.cpu_count() or 4)
    nproc = max(1, min(nproc, len(jobs)))
    env = dict(os.environ)
    env["PYTHONPATH"] = VERIF
    env["PYTHONDONTWRITEBYTECODE"] = "1"
    env.setdefault("PYTHONHASHSEED", "0")
    q = queue.Queue()
    for i, j in enumerate(jobs):
        q.put((i, j))
    results = [None] * len(jobs)
    lock = threading.Lock()
    done = [0]

    def loop():
        w = _Worker(env)
        try:
            while True:
                try:
                    i, j = q.get_nowait()
                except queue.Empty:
                    return
                if w.ready is None:
                    w.kill()
                    w.spawn()
                    if w.ready is None:
                        results[i] = {"ok": False, "error": "worker failed to start", "job": j}
                        continue
                results[i] = w.run(j)
                with lock:
                    done[0] += 1
                    if progress:
                        progress(done[0], len(jobs), results[i])
        finally:
            w.close()

    threads = [threading.Thread(target=loop, daemon=True) for _ in range(nproc)]
    for t in threads:
        t.start()
    for t in threads:
        t.join()
    return results
