"""Base class of a check specification."""
import json


class Spec:
    prop = "C00"
    sym_module = None
    real_module = None
    rule_text = ""
    stubs = []
    cuts = []
    outside = []
    assumptions = []
    max_witness_replays = 6000

    def shards(self, tier):
        raise NotImplementedError

    def bounds_text(self, tier):
        return {}

    def is_violation(self, case, rr):
        """True / False / None from the concrete replay result."""
        if rr.get("replay_error"):
            return None
        if rr.get("timeout"):
            return False
        return rr.get("violates")

    def signature(self, case, rr):
        """Failure class used to group violations for reporting."""
        return case["kind"]

    def readable(self, case):
        return json.dumps({"params": case["params"], "vars": case["vars"]}, default=repr)
