#!/bin/bash
# Development aid: run each seeded change's own check (quick tier) against its scratch worktree.
cd /verif
run() { wt=$1; shift; for c in "$@"; do echo "##### $(basename $wt) $c"; VERIF_REPO=$wt VERIF_EVIDENCE_DIR=/tmp/seed-evidence timeout 2400 ./check $c --tier quick 2>&1 | grep -E "VIOLATION|HARNESS|^C[0-9]+ \[" | cut -c1-260; echo "exit=${PIPESTATUS[0]}"; done; }
# arguments: <seed id>:<check>, e.g. c02-a:C02
for pair in "$@"; do run /tmp/seed-${pair%%:*} ${pair##*:}; done
